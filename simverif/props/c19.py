"""C19 — disk cleanup deletes only when over a limit and never the user's own blobs (DESIGN.md §7 C19).

SUT: real DiskSpaceManager (`clean`, `_clean`, `cleaning_loop`), SQLiteStorage (file DB in a temp
dir), BlobManager (`delete_blobs`), Config (limits assigned per pass).  Analytics: None.

Oracle: a reference model recomputes, from the harness' own snapshot of the tables taken at the entry
of every class pass (`_clean` is wrapped on the instance for observation), the usage per class in the
product's units and the removable sets, and judges the ordered list of hashes handed to
`blob_manager.delete_blobs` during that pass plus the tables/files after it.
"""
import asyncio
import os

from simverif.core import env
from simverif.core import blobenv as be
from simverif.core.run import Run, SimBudget, SimIdle
from simverif.core.rng import stream

ID = 'C19'
LEVEL = 'exploration'
TIERS = {'quick': {'runs': 3000}, 'thorough': {'seconds': 600}}
DET_PAIRS_PER_SLOT = 3
RULE = ("one run = one seeded history of stores (own stream published, stream downloaded with/without "
        "`file` row and with all/some blobs finished, network-seeded bare blobs, clock advances, a blob file lost "
        "and the blob fetched again (own and foreign), restarts = new incarnation running BlobManager.setup over the "
        "same directory + sqlite, optionally with all / the own / some blob files away for one start and back for the "
        "next; [own stream C19.gen.recover] daemon-like histories: streams carry their claim, every start after the "
        "first also runs the real StreamManager.initialize_from_database() incl. start-up recovery, descriptor blob "
        "files of own/all/some stored streams are lost between two starts; [C19.gen.unattached] a publish interrupted "
        "before store_stream (own blobs in no stream); [C19.gen.shared] a second valid descriptor (other stream name) "
        "naming the data blobs of an earlier download; [C19.gen.claimed] before a stream's data arrives another valid "
        "descriptor naming the same hashes with under/overstated lengths is stored and never completes) interleaved "
        "with 1..3 cleanup rounds; before each round both limits are drawn from {0, below, equal to, just "
        "above, far above} the usage of that moment; a round is one `clean()` (direct or through the real "
        "cleaning_loop on the virtual clock), optionally followed by a second `clean()` with nothing changed. "
        "Blob lengths 1 KiB..2 MiB around the whole-MiB boundaries; a fifth of the runs move real bytes end "
        "to end (create_stream / blob writers), the others register synthetic lengths through the same "
        "storage calls over sparse files of exactly that length. Non-trivial = at least one class pass started over its limit or deleted something; "
        "distinct = distinct event-trace digest.")
COMPONENTS = {
    'real': ['lbry.blob.disk_space_manager.DiskSpaceManager', 'lbry.extras.daemon.storage.SQLiteStorage',
             'lbry.wallet.database.AIOSQLite (sqlite3 file database)', 'lbry.blob.blob_manager.BlobManager',
             'lbry.blob.blob_file.BlobFile / lbry.blob.writer.HashBlobWriter', 'lbry.stream.descriptor.StreamDescriptor',
             'lbry.conf.Config', 'blob directory (real files on tmpfs)',
             'lbry.stream.stream_manager.StreamManager.initialize_from_database / recover_streams / _load_stream and '
             'SQLiteStorage.recover_streams, save_claims (daemon-like histories)'],
    'stub': ['analytics (None)', 'thread/process pools (jobs run inline on the SimLoop at scheduler-drawn instants)',
             'network (blobs arrive through writers driven by the harness)',
             'blob bytes in synthetic runs (sparse files of the generated length; stat, the BlobFile length check '
             'and the start-up scan see the real size)', 'wallet / claim transactions (a claim row naming the stream)'],
}
ASSUMPTIONS = [
    'committed sqlite transactions are durable and atomic; one executor job = one complete transaction',
    'usage of a class = bytes really on disk (size of the blob file) summed once per distinct finished blob, own = what '
    'the harness\' publish operations produced, network = foreign blobs in no stream, content = foreign blobs in >= 1 '
    'stream; the product\'s reading of its tables is recorded next to it only to name the input class (site field '
    '`input`: own_unattached / shared_blob / claimed_length) in which the two differ',
    'a blob shared by an own and a foreign stream is not generated',
    'removable = not published by the user: content blobs and descriptor blobs of foreign stored streams are removable '
    'by the content pass with or without a `file` row (site field `input` gets no_file_row when such blobs exist)',
    'content usage: "deleted although within the limit" only when floor((content+own)/MiB) <= limit, "still over" only '
    'when floor(content/MiB)+floor(own/MiB) > limit (the pass\'s own reading); in between either behaviour is accepted',
    'descriptor (sd) blobs of stored streams are outside the usage accounting; a foreign finished sd blob deleted by '
    'the network pass is C19.not_removable (VERIF_C19_STRICT_SD=0 tolerates and counts it)',
    'no store runs concurrently with a cleanup pass',
    '"published by the user" is the harness\' own record of the hashes its publish operations produced, never the '
    '`is_mine` column; the usage classes follow the column (the product\'s reading); restarts are clean shutdowns',
]
EXPECTED_PROBES = ['pass_content_over', 'pass_content_within', 'pass_content_equal', 'pass_content_unlimited',
                   'pass_content_inbetween', 'pass_network_over', 'pass_network_within', 'pass_network_equal',
                   'pass_network_zero_limit_over', 'removable_sufficient', 'removable_insufficient', 'deleted_any',
                   'deleted_multi', 'deleted_sd_blob', 'stopped_exactly_at_limit', 'second_pass', 'stores_between_rounds',
                   'real_bytes_run', 'own_stream', 'own_bare_blob', 'stream_without_file', 'partial_stream',
                   'via_cleaning_loop', 'own_present_while_deleting', 'sd_pending', 'refetch_own', 'refetch_foreign',
                   'restart', 'restart_files_missing', 'restart_files_back', 'own_row_pending_after_start', 'own_reensured',
                   'daemon_start', 'sd_blob_lost', 'recovery_ran', 'own_stream_recovered', 'publish_interrupted',
                   'shared_stream', 'claimed_length_first', 'pass_with_own_unattached', 'pass_with_shared_blob',
                   'pass_with_no_file_row']   # pass_with_claimed_length: only while add_blobs keeps a claimed length

MIB = be.MIB
_DROP = object()
# strict reading switch: make the network pass deleting the descriptor blob of a *stored* stream a violation
STRICT_STREAM_SD = os.environ.get('VERIF_C19_STRICT_SD', '1') == '1'


# ---------------------------------------------------------------------------------------------------
# generation
# ---------------------------------------------------------------------------------------------------

def _size(r, profile):
    small = [1024, 4096, r.randint(1025, MIB - 2), r.randint(1025, MIB - 2), MIB - 1]
    big = [MIB, MIB + 1, r.randint(MIB + 2, 2 * MIB - 2), 2 * MIB - 1, 2 * MIB, 2 * MIB]
    if profile == 'small':
        pool = small * 3 + big
    elif profile == 'big':
        pool = small + big * 3
    else:
        pool = small + big
    return r.choice(pool)


def _limit_spec(r, network):
    modes = ['zero', 'below', 'below', 'equal', 'above1', 'far']
    if not network:
        modes += ['equal_sum', 'equal']
    return {'mode': r.choice(modes), 'u': round(r.random(), 4)}


def gen(run_seed, tier):
    r = stream('C19.gen', run_seed)
    real = r.random() < 0.2
    profile = r.choice(['small', 'big', 'big', 'mixed', 'mixed'])
    rounds = r.choice([1, 1, 2, 2, 3])
    heavy = tier == 'thorough' and r.random() < 0.3
    max_stores = (4 if real else 7) + (4 if heavy else 0)
    max_blobs = (3 if real else 6) + (6 if heavy and not real else 0)
    ops = []
    for rd in range(rounds):
        n = r.randint(1 if rd == 0 else 0, max_stores)
        for _ in range(n):
            kind = r.choices(['own', 'dl', 'net', 'age', 'refetch', 'restart'], [3, 6, 4, 3, 2, 1.2])[0]
            if kind == 'refetch':
                # a blob file is lost and the blob arrives again (re-adds an existing row as a non-owner would)
                ops.append({'op': 'refetch', 'who': r.choice(['own', 'own', 'foreign', 'any']),
                            'picks': [round(r.random(), 4) for _ in range(r.choice([1, 1, 2, 4]))]})
            elif kind == 'restart':
                # new incarnation over the same directory + sqlite; optionally blob files are away for one start
                park = r.choice(['none', 'all', 'all', 'own', 'some'])
                ops.append({'op': 'restart', 'park': park, 'frac': round(r.random(), 3), 'tag': r.getrandbits(16)})
                if park != 'none' and r.random() < 0.75:
                    ops.append({'op': 'restart', 'park': 'none', 'frac': 0.0, 'tag': 0})
            elif kind == 'own':
                k = r.randint(1, max_blobs)
                ops.append({'op': 'own', 'sizes': [_size(r, profile) for _ in range(k)],
                            'src': r.choice([1024, 300_000, MIB, MIB + 5, 2 * MIB - 1, 3 * MIB, 4 * MIB + 77, 5 * MIB]),
                            'file': r.random() < 0.9, 'stored': r.random() < 0.92})
            elif kind == 'dl':
                k = r.randint(1, max_blobs)
                part = r.random() < 0.3
                ops.append({'op': 'dl', 'sizes': [_size(r, profile) for _ in range(k)],
                            'src': r.choice([1024, 300_000, MIB, MIB + 5, 2 * MIB - 1, 3 * MIB, 4 * MIB + 77, 6 * MIB]),
                            'finished': sorted(r.sample(range(k), r.randint(0, k))) if part else None,
                            'file': r.random() < 0.8, 'sd_finished': r.random() < 0.9})
            elif kind == 'net':
                k = r.randint(1, max_blobs)
                ops.append({'op': 'net', 'sizes': [_size(r, profile) for _ in range(k)],
                            'mine': r.random() < 0.08})
            else:
                ops.append({'op': 'age', 'dt': r.choice([1, 60, 3600, 86400, 30 * 86400])})
        ops.append({'op': 'clean', 'content': _limit_spec(r, False), 'network': _limit_spec(r, True),
                    'again': r.random() < 0.5, 'via': 'loop' if r.random() < 0.2 else 'direct'})
    sc = {'family': 'real' if real else 'synthetic', 'real': real, 'ops': ops}
    _feature_recover(sc, run_seed)
    _feature_unattached(sc, run_seed, profile, max_blobs)
    _feature_shared(sc, run_seed)
    _feature_claimed(sc, run_seed)
    return sc


# Each feature below draws from its OWN stream, so the base history above is the same as before the
# feature existed and the features are independent of each other.

def _positions(ops):
    stores = [i for i, op in enumerate(ops) if op['op'] in ('own', 'dl')]
    cleans = [i for i, op in enumerate(ops) if op['op'] == 'clean']
    return stores, cleans


def _feature_recover(sc, run_seed):
    """Daemon-like starts: streams carry their claim (as after a publish / a download from a claim) and
    every start after the first runs the real StreamManager.initialize_from_database(), i.e. the
    start-up recovery of streams whose descriptor blob file is missing; descriptor blob files get lost
    between two starts."""
    r = stream('C19.gen.recover', run_seed)
    if r.random() >= 0.35:
        return
    ops = sc['ops']
    sc['daemon'] = True
    for op in ops:
        if op['op'] == 'restart' and r.random() < 0.35:
            op['lose_sd'] = r.choice(['own', 'all', 'some'])
    stores, cleans = _positions(ops)
    if stores and cleans and stores[0] < cleans[-1] and r.random() < 0.8:
        pos = r.randint(stores[0] + 1, cleans[-1])
        ops.insert(pos, {'op': 'restart', 'park': 'none', 'frac': round(r.random(), 3), 'tag': r.getrandbits(16),
                         'lose_sd': r.choice(['own', 'own', 'all', 'some'])})


def _feature_unattached(sc, run_seed, profile, max_blobs):
    """A publish interrupted before store_stream: own blobs that belong to no stream."""
    r = stream('C19.gen.unattached', run_seed)
    if r.random() >= 0.15:
        return
    ops = sc['ops']
    _stores, cleans = _positions(ops)
    if not cleans:
        return
    k = r.randint(1, max_blobs)
    ops.insert(r.randint(0, r.choice(cleans)),
               {'op': 'own', 'sizes': [_size(r, profile) for _ in range(k)],
                'src': r.choice([300_000, MIB + 5, 2 * MIB - 1, 3 * MIB, 4 * MIB + 77]), 'file': False, 'stored': False})


def _feature_shared(sc, run_seed):
    """A second downloaded stream whose (valid) descriptor names the data blobs of an earlier one."""
    r = stream('C19.gen.shared', run_seed)
    if r.random() >= 0.2:
        return
    ops = sc['ops']
    dls = [i for i, op in enumerate(ops) if op['op'] == 'dl' and 'share' not in op]
    cleans = [i for i, op in enumerate(ops) if op['op'] == 'clean']
    if not dls or not cleans:
        return
    j = r.randrange(len(dls))
    i = dls[j]
    if i >= cleans[-1]:
        return
    part = r.random() < 0.25
    k = len(ops[i]['sizes'])
    ops.insert(r.randint(i + 1, cleans[-1]),
               {'op': 'dl', 'share': j, 'sizes': list(ops[i]['sizes']), 'src': ops[i]['src'],
                'finished': sorted(r.sample(range(k), r.randint(0, k))) if part else None,
                'file': r.random() < 0.8, 'sd_finished': True})


def _feature_claimed(sc, run_seed):
    """Before a stream's data is downloaded, another valid descriptor naming the same blob hashes with
    other lengths was stored (a stream that was started and whose data never arrived)."""
    r = stream('C19.gen.claimed', run_seed)
    if r.random() >= 0.2:
        return
    dls = [op for op in sc['ops'] if op['op'] == 'dl' and 'share' not in op]
    if not dls:
        return
    op = r.choice(dls)
    op['claimed'] = {'mode': r.choice(['under', 'under', 'over', 'mixed']), 'file': r.random() < 0.85}


def shrink(sc):
    if sc.get('real'):
        yield dict(sc, real=False, family='synthetic')
    if sc.get('daemon'):
        yield dict(sc, daemon=False)
    for i, op in enumerate(sc['ops']):
        def repl(**kw):
            ops = list(sc['ops'])
            new = dict(op, **kw)
            for key, val in kw.items():
                if val is _DROP:
                    new.pop(key, None)
            ops[i] = new
            return dict(sc, ops=ops)
        if 'lose_sd' in op:
            yield repl(lose_sd=_DROP)
            if op['lose_sd'] != 'all':
                yield repl(lose_sd='all')
        if 'claimed' in op:
            yield repl(claimed=_DROP)
            if op['claimed'].get('mode') == 'mixed':
                yield repl(claimed=dict(op['claimed'], mode='under'))
        if 'share' in op:
            yield repl(share=_DROP)
        if op['op'] == 'clean':
            if op.get('again'):
                yield repl(again=False)
            if op.get('via') != 'direct':
                yield repl(via='direct')
            for cls, vals in (('content', (100, 10, 3, 2, 1, 0)), ('network', (100, 0, 10, 3, 2, 1))):
                if op[cls].get('mode') != 'abs':
                    for v in vals:
                        yield repl(**{cls: {'mode': 'abs', 'value': v}})
        elif op['op'] == 'restart':
            if op.get('park') not in ('none', 'all'):
                yield repl(park='all')
        elif op['op'] == 'refetch':
            if len(op.get('picks', [])) > 1:
                for j in range(len(op['picks'])):
                    yield repl(picks=op['picks'][:j] + op['picks'][j + 1:])
            if op.get('who') != 'own':
                yield repl(who='own')
        elif op['op'] in ('own', 'dl', 'net'):
            sizes = op['sizes']
            if len(sizes) > 1:
                for j in range(len(sizes)):
                    kw = {'sizes': sizes[:j] + sizes[j + 1:]}
                    if op.get('finished') is not None:
                        kw['finished'] = None
                    yield repl(**kw)
            if op.get('finished') is not None:
                yield repl(finished=None)
            for j, s in enumerate(sizes):
                for simple in (2 * MIB, MIB, 1024):
                    if s != simple and (s // MIB) == (simple // MIB):
                        yield repl(sizes=sizes[:j] + [simple] + sizes[j + 1:])
                        break
            if op['op'] == 'dl' and not op.get('sd_finished', True):
                yield repl(sd_finished=True)
            if op['op'] == 'own' and not op.get('stored', True):
                yield repl(stored=True)


# ---------------------------------------------------------------------------------------------------
# reference model
# ---------------------------------------------------------------------------------------------------

class Model:
    """The harness' own account of one moment: per class the bytes that are really on disk (size of the
    blob file, once per distinct blob, ownership from the harness' record of what the user published)
    and the removable sets, from a table snapshot (own SQL) plus the directory listing.  The product's
    reading of the same tables (one term per (blob, stream) pair, `blob_length` and `is_mine` columns,
    own blobs outside any stream counted as network) is kept next to it only to name the input class in
    which the two differ."""

    def __init__(self, snap, published=frozenset(), sizes=None):
        sizes = sizes or {}
        self.rows = {h: (int(l), st, int(m), a) for h, l, st, m, a in snap['blob']}
        self.published = published
        self.flag_lost = sorted(h for h in published if h in self.rows and not self.rows[h][2])
        self.sd = {sd for _s, sd in snap['stream']}
        sd_of = {s: sd for s, sd in snap['stream']}
        with_file = set(snap['file'])
        in_stream = {}
        for s, h, _pos in snap['stream_blob']:
            in_stream.setdefault(h, set()).add(s)
        self.shared = sorted(h for h, ss in in_stream.items() if len(ss) > 1)
        self.true_len = {}
        self.content = self.own = self.network = 0            # bytes really held, per class
        self.p_content = self.p_own = self.p_network = 0      # the product's reading of the tables
        self.own_unattached = 0
        self.shared_finished = 0
        self.length_differs = {'content': 0, 'network': 0}
        # removable = not published by the user (the statement); whether the stream has a `file` row is the
        # product's business: its usage counts these blobs as content either way
        self.rem_content = set()       # foreign finished content blobs of stored streams
        self.rem_content_sd = set()    # descriptor blobs of foreign stored streams
        self.no_file_row = 0           # removable content blobs none of whose streams has a `file` row
        self.rem_network = set()       # foreign finished blobs outside any stream
        self.stream_sd_finished = set()  # foreign finished descriptor blobs of stored streams
        for s, sd in sd_of.items():
            row = self.rows.get(sd)
            if row is None or row[2] or sd in published:
                continue
            self.rem_content_sd.add(sd)
            if row[1] == 'finished':
                self.stream_sd_finished.add(sd)
        for h, (db_len, status, flag, _a) in self.rows.items():
            if h in self.sd or status != 'finished':
                continue
            mine = bool(flag) or h in published
            length = self.true_len[h] = sizes.get(h, db_len)
            streams = in_stream.get(h, ())
            pairs = max(1, len(streams))
            if flag:
                self.p_own += db_len * pairs
            if streams:
                if not flag:
                    self.p_content += db_len * pairs
            else:
                self.p_network += db_len
            if len(streams) > 1:
                self.shared_finished += 1
            if mine:
                self.own += length
            if streams:
                if length != db_len:
                    self.length_differs['content'] += 1
                if not mine:
                    self.content += length
                    self.rem_content.add(h)
                    if not streams & with_file:
                        self.no_file_row += 1
            elif mine:
                self.own_unattached += length
                if length != db_len:
                    self.length_differs['content'] += 1
            else:
                if length != db_len:
                    self.length_differs['network'] += 1
                self.network += length
                self.rem_network.add(h)

    def mb(self, h):
        return self.true_len.get(h, self.rows[h][0]) // MIB

    def is_own(self, h):
        row = self.rows.get(h)
        return h in self.published or bool(row is not None and row[2])

    def input_class(self, cls):
        """Which generated input separates the product's reading of this class from the bytes really held."""
        out = []
        if cls == 'network':
            if self.own_unattached:
                out.append('own_unattached')
            if self.length_differs['network']:
                out.append('claimed_length')
        else:
            if self.no_file_row:
                out.append('no_file_row')
            if self.shared_finished:
                out.append('shared_blob')
            if self.length_differs['content']:
                out.append('claimed_length')
        return out

    @property
    def content_used_own_reading(self):
        return self.content // MIB + self.own // MIB

    @property
    def content_used_max_reading(self):
        return (self.content + self.own) // MIB

    @property
    def network_used(self):
        return self.network // MIB

    @property
    def product_reading(self):
        return self.p_content // MIB + self.p_own // MIB, self.p_network // MIB


def _resolve(spec, used, used_sum, network):
    mode = spec.get('mode')
    if mode == 'abs':
        return max(0, int(spec['value']))
    if mode == 'zero':
        return 0
    if mode == 'below':
        lo = 0 if network else 1
        return lo + int(spec.get('u', 0.5) * (used - lo)) if used - 1 >= lo else max(lo, used - 1)
    if mode == 'equal':
        return used
    if mode == 'equal_sum':
        return used_sum
    if mode == 'above1':
        return used + 1
    return used + 1000


# ---------------------------------------------------------------------------------------------------
# execution
# ---------------------------------------------------------------------------------------------------

def execute(scenario, keep_trace=False):
    env.import_lbry()
    import time as _time
    from lbry.blob.blob_manager import BlobManager
    from lbry.blob.blob_info import BlobInfo
    from lbry.blob.disk_space_manager import DiskSpaceManager
    from lbry.stream.descriptor import StreamDescriptor
    be.freeze_heap_once()

    run = Run(scenario, keep_trace)
    dirs = be.Dirs('sv-c19-')
    parked_dir = os.path.join(dirs.root, 'parked')
    os.makedirs(parked_dir)
    published = set()            # harness memory: every hash that came out of a publish by the user
    own_streams = set()          # stream hashes of the streams the user published
    synthetic = set()            # hashes whose bytes are never materialised (sparse files of the right size)
    dl_mem = []                  # downloaded streams, for descriptors that name the same blobs again
    daemon = bool(scenario.get('daemon'))
    real = bool(scenario.get('real'))
    if real:
        run.probes['real_bytes_run'] += 1
    state = {'uid': 0, 'cls': None, 'deleted': None, 'rounds': 0, 'stores_since_round': 0, 'passes': [],
             'next': 0, 'boots': 0, 'parked': False, 'unparked': False, 'lost_in_recovery': set(), 'sd_lost': 0}
    limits = {'content': 0, 'network': 0}

    def uid():
        state['uid'] += 1
        return state['uid']

    def short(h):
        return h[:10]

    try:
        conf = be.make_config(dirs)

        async def driver(loop):
            before_rows = be.db_snapshot(dirs.db_path)['blob']
            before_boot = {h: st for h, _l, st, _m, _a in before_rows}
            flagged_before = {h for h, _l, _st, m, _a in before_rows if m}
            storage = await be.open_storage(loop, conf, dirs)
            bm = BlobManager(loop, dirs.blobs, storage, conf)
            await bm.setup()
            tracker = be.CompletionTracker(bm)
            state['boots'] += 1
            sm = None
            if daemon and state['boots'] > 1:
                # the rest of a daemon start: the real stream manager loads the file list and recovers the
                # streams whose descriptor blob is not on disk (observed, not altered)
                from lbry.stream.stream_manager import StreamManager
                recovered = []
                orig_recover = storage.recover_streams

                async def observed_recover(descriptors_and_sds, download_directory):
                    recovered.extend(d.stream_hash for d, _sd, _fee in descriptors_and_sds)
                    return await orig_recover(descriptors_and_sds, download_directory)
                storage.recover_streams = observed_recover
                sm = StreamManager(loop, conf, bm, None, storage, None)
                await sm.initialize_from_database()
                await tracker.settle()
                run.probes['daemon_start'] += 1
                if recovered:
                    run.probes['recovery_ran'] += 1
                    if own_streams & set(recovered):
                        run.probes['own_stream_recovered'] += 1
                    flagged_after = {h for h, _l, _st, m, _a in be.db_snapshot(dirs.db_path)['blob'] if m}
                    state['lost_in_recovery'] |= {h for h in published if h in flagged_before and h not in flagged_after}
                run.ev('daemon-start', state['boots'], len(recovered), len(own_streams & set(recovered)))
            if state['boots'] > 1:
                boot_model = Model(be.db_snapshot(dirs.db_path), frozenset(published), be.dir_sizes(dirs.blobs))
                run.probes['restart'] += 1
                if state['parked']:
                    run.probes['restart_files_missing'] += 1
                if state['unparked']:
                    run.probes['restart_files_back'] += 1
                if any(h in published and row[1] == 'pending' for h, row in boot_model.rows.items()):
                    run.probes['own_row_pending_after_start'] += 1
                if any(h in published and row[1] == 'finished' and before_boot.get(h) == 'pending'
                       for h, row in boot_model.rows.items()):
                    run.probes['own_reensured'] += 1
                if boot_model.flag_lost:
                    run.probes['obs_is_mine_flag_lost'] += 1
                run.ev('boot', state['boots'], state['parked'], state['unparked'],
                       sum(1 for r in boot_model.rows.values() if r[1] == 'finished'), len(boot_model.flag_lost))
            dsm = DiskSpaceManager(conf, storage, bm, cleaning_interval=1800, analytics=None)

            # ---- observation: ordered hashes handed to delete_blobs, attributed to the running class pass
            orig_delete_blobs = bm.delete_blobs

            async def observed_delete_blobs(blob_hashes, delete_from_db=True):
                hashes = list(blob_hashes)
                if state['deleted'] is not None:
                    state['deleted'].extend(hashes)
                else:   # the observation seam no longer brackets the deletions: a harness problem, not a verdict
                    raise AssertionError(f'harness: delete_blobs({len(hashes)} hashes) outside an observed class pass')
                return await orig_delete_blobs(blob_hashes, delete_from_db)
            bm.delete_blobs = observed_delete_blobs

            orig_clean_class = dsm._clean

            async def observed_clean_class(is_network_blob=False):
                cls = 'network' if is_network_blob else 'content'
                pre = be.db_snapshot(dirs.db_path)
                pre_sizes = be.dir_sizes(dirs.blobs)
                pre_files = set(pre_sizes)
                state['deleted'] = []
                state['cls'] = cls
                try:
                    ret = await orig_clean_class(is_network_blob)
                finally:
                    deleted, state['deleted'] = state['deleted'], None
                post = be.db_snapshot(dirs.db_path)
                post_sizes = be.dir_sizes(dirs.blobs)
                post_files = set(post_sizes)
                own = frozenset(published)
                judge(cls, limits[cls], Model(pre, own, pre_sizes), Model(post, own, post_sizes), deleted, ret,
                      pre_files, post_files)
                state['passes'].append((cls, len(deleted)))
                return ret
            dsm._clean = observed_clean_class

            clean_done = asyncio.Event()
            orig_clean = dsm.clean

            async def observed_clean():
                try:
                    return await orig_clean()
                finally:
                    clean_done.set()
            dsm.clean = observed_clean

            # ---- stores ---------------------------------------------------------------------------------
            def placeholder(blob_hash, size):
                # a sparse file of the blob's length: everything the product can observe about it (stat,
                # BlobFile's length check, the start-up scan) is as for the real blob
                synthetic.add(blob_hash)
                path = os.path.join(dirs.blobs, blob_hash)
                if not os.path.exists(path):
                    be.sparse_file(path, size)

            def descriptor_from(name, key, triples, term_iv, mine, lengths=None, blob_dir=None):
                """A valid descriptor naming the blobs `triples` = [(hash, length, iv)], optionally claiming
                other lengths.  Returns (descriptor with sd_hash set, sd blob bytes, now)."""
                now = _time.time()
                infos = [BlobInfo(i, lengths[i] if lengths else length, iv, now, h, mine)
                         for i, (h, length, iv) in enumerate(triples)]
                infos.append(BlobInfo(len(infos), 0, term_iv, now, None, mine))
                desc = StreamDescriptor(loop, blob_dir or dirs.blobs, name, key, name, infos)
                sd_json = desc.as_json()
                desc.sd_hash = desc.calculate_sd_hash()
                return desc, sd_json, now

            def synthetic_descriptor(sizes, mine):
                n = uid()
                triples = [(be.label_hash('c19', n, i), s, '%032x' % (n * 1000 + i)) for i, s in enumerate(sizes)]
                mem = {'key': '%032x' % n, 'triples': triples, 'term_iv': '%032x' % (n * 1000 + 999), 'bytes': None}
                desc, sd_json, now = descriptor_from(f'stream{n}', mem['key'], triples, mem['term_iv'], mine)
                return desc, sd_json, now, mem

            def claimed_lengths(spec, triples):
                mode = spec.get('mode', 'under')
                out = []
                for i, (_h, length, _iv) in enumerate(triples):
                    under = mode == 'under' or (mode == 'mixed' and i % 2 == 0)
                    out.append(16 if under else 2 * MIB)
                return out

            async def maybe_claim(sd_hash):
                if daemon:
                    await be.save_stream_claim(storage, sd_hash, uid())

            async def store_own(op, n):
                run.probes['own_stream'] += 1
                if real:
                    path = os.path.join(dirs.downloads, f'own{uid()}.bin')
                    with open(path, 'wb') as f:
                        f.write(be.det_bytes(('own', n), op['src']))
                    if op.get('stored', True):
                        desc = await be.publish_stream(loop, bm, storage, path, with_file=op.get('file', True))
                    else:   # publish interrupted before store_stream: own blobs outside any stream
                        desc = await StreamDescriptor.create_stream(
                            loop, dirs.blobs, path, blob_completed_callback=bm.blob_completed)
                    await tracker.settle()
                    nblobs = len(desc.blobs) - 1
                    published.update(b.blob_hash for b in desc.blobs[:-1])
                    published.add(desc.sd_hash)
                else:
                    desc, sd_json, now, _mem = synthetic_descriptor(op['sizes'], True)
                    published.update(b.blob_hash for b in desc.blobs[:-1])
                    published.add(desc.sd_hash)
                    for info in desc.blobs[:-1]:
                        placeholder(info.blob_hash, info.length)
                    await storage.add_blobs(*[(i.blob_hash, i.length, now, 1) for i in desc.blobs[:-1]], finished=True)
                    await be.download_blob(bm, sd_json, is_mine=True)
                    await tracker.settle()
                    if op.get('stored', True):
                        await storage.store_stream(bm.get_blob(desc.sd_hash, is_mine=True), desc)
                        if op.get('file', True):
                            await storage.save_published_file(desc.stream_hash, f'own{n}.bin', dirs.downloads, 0)
                    nblobs = len(op['sizes'])
                if op.get('stored', True):
                    own_streams.add(desc.stream_hash)
                    if op.get('file', True):
                        await maybe_claim(desc.sd_hash)
                else:
                    run.probes['own_bare_blob'] += 1
                    run.probes['publish_interrupted'] += 1
                run.ev('own', n, nblobs, op.get('stored', True), op.get('file', True), short(desc.sd_hash))

            async def store_dl(op, n):
                with_file = op.get('file', True)
                if not with_file:
                    run.probes['stream_without_file'] += 1
                src = dl_mem[op['share'] % len(dl_mem)] if op.get('share') is not None and dl_mem else None
                spec = op.get('claimed')
                if real:
                    if src is None:
                        path = os.path.join(dirs.remote, f'src{uid()}.bin')
                        with open(path, 'wb') as f:
                            f.write(be.det_bytes(('dl', n), op['src']))
                        rdesc, rblobs = await be.make_remote_stream(loop, dirs.remote, path)
                        mem = {'key': rdesc.key, 'term_iv': rdesc.blobs[-1].iv, 'bytes': rblobs,
                               'triples': [(b.blob_hash, b.length, b.iv) for b in rdesc.blobs[:-1]]}
                        dl_mem.append(mem)
                        sd_hash, blobs = rdesc.sd_hash, rblobs
                    else:   # another valid descriptor (other stream name) naming the same data blobs
                        run.probes['shared_stream'] += 1
                        mem = src
                        vdesc, sd_json, _now = descriptor_from(f'shared{uid()}', mem['key'], mem['triples'],
                                                               mem['term_iv'], False, blob_dir=dirs.remote)
                        sd_hash = vdesc.sd_hash
                        blobs = {h: mem['bytes'][h] for h, _l, _iv in mem['triples']}
                        blobs[sd_hash] = sd_json
                    k = len(mem['triples'])
                    if spec:
                        run.probes['claimed_length_first'] += 1
                        edesc, esd, _now = descriptor_from(f'claimed{uid()}', mem['key'], mem['triples'], mem['term_iv'],
                                                           False, lengths=claimed_lengths(spec, mem['triples']),
                                                           blob_dir=dirs.remote)
                        await be.download_stream(loop, bm, storage, edesc.sd_hash, {edesc.sd_hash: esd}, take=set(),
                                                 with_file=spec.get('file', True))
                        await tracker.settle()
                        if spec.get('file', True):
                            await maybe_claim(edesc.sd_hash)
                    take = None
                    if op.get('finished') is not None:
                        take = {i for i in op['finished'] if i < k}
                        if len(take) < k:
                            run.probes['partial_stream'] += 1
                    desc = await be.download_stream(loop, bm, storage, sd_hash, blobs, take=take, with_file=with_file)
                    await tracker.settle()
                    nfin = k if take is None else len(take)
                else:
                    if src is None:
                        desc, sd_json, now, mem = synthetic_descriptor(op['sizes'], False)
                        dl_mem.append(mem)
                    else:
                        run.probes['shared_stream'] += 1
                        mem = src
                        desc, sd_json, now = descriptor_from(f'shared{uid()}', mem['key'], mem['triples'],
                                                             mem['term_iv'], False)
                    k = len(mem['triples'])
                    if spec:
                        run.probes['claimed_length_first'] += 1
                        edesc, esd, _now = descriptor_from(f'claimed{uid()}', mem['key'], mem['triples'], mem['term_iv'],
                                                           False, lengths=claimed_lengths(spec, mem['triples']))
                        await be.download_blob(bm, esd)
                        await tracker.settle()
                        await storage.store_stream(bm.get_blob(edesc.sd_hash, length=len(esd)), edesc)
                        if spec.get('file', True):
                            await storage.save_downloaded_file(edesc.stream_hash, None, None, 0.0)
                            await maybe_claim(edesc.sd_hash)
                    if op.get('sd_finished', True):
                        await be.download_blob(bm, sd_json)
                        await tracker.settle()
                    else:
                        run.probes['sd_pending'] += 1
                    await storage.store_stream(bm.get_blob(desc.sd_hash, length=len(sd_json)), desc)
                    fin = range(k) if op.get('finished') is None else [i for i in op['finished'] if i < k]
                    fin = sorted(set(fin))
                    if len(fin) < k:
                        run.probes['partial_stream'] += 1
                    for i in fin:
                        placeholder(mem['triples'][i][0], mem['triples'][i][1])
                    if fin:
                        # the verified blob reports its real length, whatever a descriptor claimed
                        await storage.add_blobs(*[(mem['triples'][i][0], mem['triples'][i][1], now, 0) for i in fin],
                                                finished=True)
                    if with_file:
                        await storage.save_downloaded_file(desc.stream_hash, None, None, 0.0)
                    nfin = len(fin)
                if with_file:
                    await maybe_claim(desc.sd_hash)
                run.ev('dl', n, k, nfin, with_file, short(desc.sd_hash), op.get('share') is not None and src is not None,
                       spec.get('mode') if spec else None)

            async def store_net(op, n):
                mine = 1 if op.get('mine') else 0
                if mine:
                    run.probes['own_bare_blob'] += 1
                for j, size in enumerate(op['sizes']):
                    if real:
                        data = be.det_bytes(('net', n, j), size)
                        if mine:
                            published.add(be.blob_hash_of(data))
                        await be.download_blob(bm, data, is_mine=bool(mine))
                    else:
                        h = be.label_hash('c19net', n, j)
                        if mine:
                            published.add(h)
                        placeholder(h, size)
                        await storage.add_blobs((h, size, _time.time(), mine), finished=True)
                await tracker.settle()
                run.ev('net', n, len(op['sizes']), mine)

            # ---- a blob file is lost and the blob arrives again ---------------------------------------------
            async def refetch(op, n):
                snap = be.db_snapshot(dirs.db_path)
                files = set(be.list_dir(dirs.blobs))
                who = op.get('who', 'any')
                cands = sorted(h for h, _l, st, _m, _a in snap['blob'] if st == 'finished' and h in files and
                               (who == 'any' or (h in published) == (who == 'own')))
                targets = []
                for frac in op.get('picks', [0.0]):
                    if cands:
                        h = cands[min(len(cands) - 1, int(frac * len(cands)))]
                        if h not in targets:
                            targets.append(h)
                done = []
                for h in targets:
                    path = os.path.join(dirs.blobs, h)
                    size = os.path.getsize(path)
                    data = b''
                    if h not in synthetic:
                        with open(path, 'rb') as f:
                            data = f.read()
                    os.remove(path)                      # behind the daemon's back
                    bm.blobs.pop(h, None)                # nobody holds the old object any more
                    own = h in published
                    run.faults['own_file_lost_and_refetched' if own else 'foreign_file_lost_and_refetched'] += 1
                    run.probes['refetch_own' if own else 'refetch_foreign'] += 1
                    if data and be.blob_hash_of(data) == h:
                        # real bytes: through a real writer, as a download does (BlobFile defaults to is_mine=False)
                        _blob, outcome = await be.download_blob(bm, data)
                    else:
                        # synthetic length: same completion path without the bytes
                        blob = bm.get_blob(h, size)
                        placeholder(h, size)
                        bm.blob_completed(blob)
                        outcome = 'synthetic'
                    await tracker.settle()
                    done.append((short(h), own, outcome))
                run.ev('refetch', n, who, done)

            # ---- cleanup rounds -----------------------------------------------------------------------
            async def do_clean(op, n):
                state['rounds'] += 1
                if state['rounds'] > 1 and state['stores_since_round']:
                    run.probes['stores_between_rounds'] += 1
                state['stores_since_round'] = 0
                m = Model(be.db_snapshot(dirs.db_path), frozenset(published), be.dir_sizes(dirs.blobs))
                limits['content'] = _resolve(op['content'], m.content_used_own_reading, m.content_used_max_reading, False)
                limits['network'] = _resolve(op['network'], m.network_used, m.network_used, True)
                conf.blob_storage_limit = limits['content']
                conf.network_storage_limit = limits['network']
                run.ev('round', n, 'limits', limits['content'], limits['network'], 'used',
                       m.content_used_own_reading, m.content_used_max_reading, m.network_used,
                       'product-reading', m.product_reading)
                state['passes'] = []
                if op.get('via') == 'loop':
                    run.probes['via_cleaning_loop'] += 1
                    clean_done.clear()
                    await dsm.start()
                    await asyncio.wait_for(clean_done.wait(), 4000)
                    task = dsm.task
                    await asyncio.sleep(0)
                    failed = task.exception() if task.done() and not task.cancelled() else None
                    await dsm.stop()
                    await asyncio.sleep(0)
                    if failed is not None:
                        raise failed
                else:
                    ret = await dsm.clean()
                    run.ev('clean-return', repr(ret))
                if run.violations:
                    return False
                if [c for c, _n in state['passes']] != ['content', 'network']:
                    raise AssertionError(f'harness: clean() ran class passes {state["passes"]}, cannot attribute deletions')
                if op.get('again'):
                    run.probes['second_pass'] += 1
                    state['passes'] = []
                    state['again'] = True
                    try:
                        await dsm.clean()
                    finally:
                        state['again'] = False
                    if run.violations:
                        return False
                return True

            # ---- the oracle of one class pass --------------------------------------------------------------
            def judge(cls, limit, pre, post, deleted, ret, pre_files, post_files):
                again = state.get('again', False)
                vanished = sorted(set(pre.rows) - set(post.rows) - set(deleted))
                all_deleted = list(deleted) + vanished
                if cls == 'content':
                    used, used_max = pre.content_used_own_reading, pre.content_used_max_reading
                    used_after = post.content_used_own_reading
                    removable = pre.rem_content | pre.rem_content_sd
                    counted_removable = pre.rem_content
                else:
                    used = used_max = pre.network_used
                    used_after = post.network_used
                    removable = set(pre.rem_network)
                    counted_removable = pre.rem_network
                run.ev('pass', cls, 'again' if again else 'first', 'limit', limit, 'used', used, used_max,
                       'deleted', [short(h) for h in deleted], 'vanished', [short(h) for h in vanished],
                       'ret', ret if isinstance(ret, int) else repr(ret), 'after', used_after)
                site = {'class': cls}
                inputs = pre.input_class(cls)
                if inputs:
                    site['input'] = '+'.join(inputs)
                    for name in inputs:
                        run.probes[f'pass_with_{name}'] += 1
                # -- reach probes
                unlimited = cls == 'content' and limit == 0
                if unlimited:
                    run.probes['pass_content_unlimited'] += 1
                elif used > limit:
                    run.probes[f'pass_{cls}_over'] += 1
                    state['over'] = True
                    if cls == 'network' and limit == 0:
                        run.probes['pass_network_zero_limit_over'] += 1
                elif used_max > limit:
                    run.probes['pass_content_inbetween'] += 1
                else:
                    run.probes[f'pass_{cls}_within'] += 1
                    if used == limit:
                        run.probes[f'pass_{cls}_equal'] += 1
                if all_deleted:
                    run.probes['deleted_any'] += 1
                    state['deleted_total'] = state.get('deleted_total', 0) + len(all_deleted)
                    if len(all_deleted) > 1:
                        run.probes['deleted_multi'] += 1
                    if any(h in pre.sd for h in all_deleted):
                        run.probes['deleted_sd_blob'] += 1
                    if pre.own:
                        run.probes['own_present_while_deleting'] += 1

                # -- never the user's own blobs (rows and files); "own" = published by the user according to the
                #    harness' own record (plus whatever the table flags as own), never the table flag alone
                if pre.flag_lost:
                    run.probes['obs_is_mine_flag_lost'] += 1
                for h in all_deleted:
                    if pre.is_own(h):
                        row = pre.rows.get(h)
                        flag = 'set' if h not in pre.flag_lost else \
                            'lost_in_recovery' if h in state['lost_in_recovery'] else 'lost'
                        return run.violation(
                            'C19.own_deleted',
                            f'{cls} pass deleted {short(h)}, a blob the user published (row before the pass: {row}; '
                            f'is_mine flag {flag})', flag=flag, **site)
                for h in pre.rows:
                    if pre.is_own(h) and h in pre_files and h not in post_files:
                        return run.violation('C19.own_deleted', f'file of published blob {short(h)} disappeared during '
                                             f'the {cls} pass', **site)
                # -- nothing when content storage is unlimited
                if unlimited and all_deleted:
                    return run.violation('C19.deleted_unlimited', f'content limit 0 (unlimited) but {len(all_deleted)} '
                                         f'blob(s) deleted: {[short(h) for h in all_deleted]}', **site)
                # -- nothing from a class within its limit (within under every reading)
                if all_deleted and not unlimited and used_max <= limit:
                    return run.violation(
                        'C19.deleted_within_limit',
                        f'{cls} usage {used_max} MB <= limit {limit} MB but {len(all_deleted)} blob(s) deleted '
                        f'({[(short(h), pre.rows.get(h, (None,))[0]) for h in all_deleted]}); bytes on disk: content='
                        f'{pre.content} own={pre.own} (outside any stream {pre.own_unattached}) network={pre.network}; the '
                        f'product reads (content+own, network) = {pre.product_reading} MB', **site)
                # -- a second pass with nothing changed deletes nothing
                if again and all_deleted:
                    return run.violation(
                        'C19.deleted_within_limit',
                        f'second {cls} pass with nothing changed deleted {[short(h) for h in all_deleted]} '
                        f'(limit {limit}, used {used}..{used_max})', **site)
                # -- only blobs of the removable set of this class
                for h in all_deleted:
                    if h in removable:
                        continue
                    if cls == 'network' and h in pre.stream_sd_finished:
                        run.probes['obs_network_deleted_stream_sd'] += 1
                        if not STRICT_STREAM_SD:
                            continue
                        return run.violation('C19.not_removable', f'network pass deleted the descriptor blob {short(h)} '
                                             f'of a stored stream', what='stream_sd', **site)
                    row = pre.rows.get(h)
                    return run.violation('C19.not_removable', f'{cls} pass deleted {short(h)} which is outside its '
                                         f'removable set (row={row}, in_sd={h in pre.sd})', what='other', **site)
                # -- return value of the class pass
                if isinstance(ret, int) and not isinstance(ret, bool):
                    if ret != len(deleted):
                        return run.violation('C19.return_value', f'{cls} pass returned {ret}, deleted {len(deleted)}', **site)
                else:
                    return run.violation('C19.return_value', f'{cls} pass returned {ret!r}', **site)
                # -- observations outside the statement (counted, never a verdict): a deleted blob whose row or
                #    file survived (usage after the pass is judged from the tables below anyway), rows rewritten
                if any(h in post.rows or h in post_files for h in deleted):
                    run.probes['obs_deleted_but_still_present'] += 1
                if any(h not in all_deleted and post.rows.get(h) != row for h, row in pre.rows.items()):
                    run.probes['obs_row_rewritten'] += 1
                if unlimited or used <= limit:
                    return None
                # -- the class was over its limit under the pass's own reading
                excess = used - limit
                freeable = sum(pre.mb(h) for h in counted_removable)
                if freeable >= excess:
                    run.probes['removable_sufficient'] += 1
                    if used_after > limit:
                        return run.violation(
                            'C19.still_over',
                            f'{cls} usage {used} MB > limit {limit} MB, removable blobs free {freeable} MB in the pass\'s '
                            f'accounting (excess {excess}), but after the pass usage is {used_after} MB; deleted '
                            f'{[(short(h), pre.rows[h][0]) for h in deleted]}; the product read (content+own, network) = '
                            f'{pre.product_reading} MB', **site)
                else:
                    run.probes['removable_insufficient'] += 1
                # -- minimality in the pass's own accounting
                if deleted:
                    freed, seen = [], set()
                    for h in deleted:     # a hash listed twice frees its bytes once
                        freed.append(pre.mb(h) if h in pre.rows and h not in seen else 0)
                        seen.add(h)
                    before_last = sum(freed[:-1])
                    total = before_last + freed[-1]
                    if before_last >= excess:
                        return run.violation(
                            'C19.overfreed',
                            f'{cls} excess {excess} MB was already covered by the first {len(deleted) - 1} deleted blob(s) '
                            f'({before_last} MB) yet {len(deleted)} were deleted: '
                            f'{[(short(h), pre.rows[h][0]) for h in deleted if h in pre.rows]}', **site)
                    if total == excess:
                        run.probes['stopped_exactly_at_limit'] += 1
                return None

            # ---- the history -------------------------------------------------------------------------------
            ops = scenario['ops']
            while state['next'] < len(ops):
                n = state['next']
                op = ops[n]
                state['next'] += 1
                kind = op.get('op')
                if kind == 'restart':
                    await tracker.settle()
                    if sm is not None:
                        await sm.stop()
                    bm.stop()
                    await storage.close()
                    move_files(op, n)
                    return 'restart'
                if kind == 'refetch':
                    await refetch(op, n)
                    state['stores_since_round'] += 1
                elif kind == 'own':
                    await store_own(op, n)
                    state['stores_since_round'] += 1
                elif kind == 'dl':
                    await store_dl(op, n)
                    state['stores_since_round'] += 1
                elif kind == 'net':
                    await store_net(op, n)
                    state['stores_since_round'] += 1
                elif kind == 'age':
                    loop.advance(op['dt'])
                    run.faults['clock_advance'] += 1
                    run.ev('age', op['dt'])
                elif kind == 'clean':
                    try:
                        ok = await do_clean(op, n)
                    except (asyncio.CancelledError, SimBudget, SimIdle, AssertionError):
                        raise
                    except Exception as e:  # noqa
                        run.ev('clean-exception', type(e).__name__)
                        run.violation('C19.exception', f'cleanup raised {type(e).__name__}: {e}', exc=type(e).__name__)
                        ok = False
                    if not ok:
                        break
                if run.violations:
                    break
            if sm is not None:
                await sm.stop()
            bm.stop()
            await storage.close()
            return 'end'

        def move_files(op, n):
            """Between two incarnations: files parked at the previous restart come back, then the files
            this restart asks for go away (blob directory / some files temporarily unavailable)."""
            back = 0
            for name in be.list_dir(parked_dir):
                dst = os.path.join(dirs.blobs, name)
                if os.path.exists(dst):
                    os.remove(os.path.join(parked_dir, name))
                else:
                    os.rename(os.path.join(parked_dir, name), dst)
                    back += 1
            state['unparked'] = back > 0
            lost = 0
            if op.get('lose_sd'):
                import random as _rnd
                for sd in sorted({sd for _s, sd in be.db_snapshot(dirs.db_path)['stream']}):
                    if op['lose_sd'] == 'own' and sd not in published:
                        continue
                    if op['lose_sd'] == 'some' and _rnd.Random(f"sd:{op.get('tag', 0)}:{sd}").random() >= 0.5:
                        continue
                    path = os.path.join(dirs.blobs, sd)
                    if os.path.isfile(path):
                        os.remove(path)
                        lost += 1
                if lost:
                    run.faults['sd_blob_file_lost'] += lost
                    run.probes['sd_blob_lost'] += 1
            park = op.get('park', 'none')
            away = 0
            if park != 'none':
                import random as _random
                for name in be.valid_blob_files(dirs.blobs):
                    if park == 'own' and name not in published:
                        continue
                    if park == 'some' and _random.Random(f"{op.get('tag', 0)}:{name}").random() >= op.get('frac', 0.5):
                        continue
                    os.rename(os.path.join(dirs.blobs, name), os.path.join(parked_dir, name))
                    away += 1
            state['parked'] = away > 0
            if away:
                run.faults['blob_files_away_for_one_start'] += 1
            run.ev('restart', n, park, 'away', away, 'back', back, 'sd-lost', lost)

        while True:
            loop = run.new_loop(max_steps=600_000)
            try:
                outcome = run.drive(driver(loop))
            except (SimBudget, SimIdle):
                outcome = 'stop'
            if loop.task_failures:
                run.notes.append(f'task failures: {loop.task_failures[:3]}')
            if outcome != 'restart' or run.violations:
                break
            run.kill_loop()
        run.nontrivial = bool(state.get('over') or state.get('deleted_total'))
        run.finish()
        return run.result()
    finally:
        dirs.remove()
