"""C09 — wallet sync converges to the server's history, balance and UTXO set (DESIGN.md §7 C09).

SUT: real Ledger (constant-only sub-class), Database(':memory:'), Account + HD address managers,
TaskGroup, StreamController, Network request wrappers + retriable_call, Transaction/script parsing.
Stub: `Network.rpc` (single funnel) answered by the in-process reference hub (`simverif.core.hub`)
after scheduler-drawn virtual latencies; sqlite executors run inline at scheduler-drawn instants.
"""
import asyncio
import random

from simverif.core import env
from simverif.core.run import Run, SimBudget, SimIdle
from simverif.core.rng import stream

ID = 'C09'
LEVEL = 'exploration'
TIERS = {'quick': {'runs': 2500}, 'thorough': {'seconds': 600}}
DET_PAIRS_PER_SLOT = 3
RULE = ("one run = one seeded multi-stage chain history served by an independent reference hub to a real "
        "Ledger+sqlite+HD account: 2..6 stages of 1..5 transactions (plain / claim / update / support / "
        "purchase-pair payments to wallet addresses of either chain at any index <= last used + gap, spends of "
        "earlier wallet outputs to the same / other / foreign addresses mixed with foreign inputs, spends of "
        "third-party outputs of earlier wallet transactions, legacy and segwit encodings, third-party outputs of "
        "template (family standard/faulty) or non-template (family exotic) script kinds; family hostile_name: "
        "claim/update/support names that are not valid UTF-8 -- lone continuation bytes, overlong and truncated "
        "forms, surrogates, latin-1, UTF-16 -- on outputs paid to the wallet and on third-party outputs of "
        "transactions spending wallet coins; family hostile_channel_key: channel claims whose public key is "
        "neither 33 raw bytes nor DER of a secp256k1 key -- junk, empty, absent, truncated DER, point off the "
        "curve, other DER structures, an RSA key -- as third-party outputs of wallet transactions or paid to the "
        "wallet; both with well-formed controls), optional blocks "
        "confirming a seeded ancestor-closed part of the mempool, optional bursts up to the 100-per-address "
        "limit, optional ladders of payments climbing through the gap window within one stage; the wallet starts "
        "before the first stage or is restored against the already populated hub (then the initial sync is "
        "judged on its own); after each stage the hub notifies every subscribed address whose status changed, in seeded "
        "order with seeded delays, sometimes preceded by a superseded status, sometimes twice, stages may "
        "overlap; RPC latencies, sqlite completion delays and (family faulty) transient TimeoutError / "
        "ConnectionError on the retried calls are drawn per call site. Oracle at every quiescence point. "
        "Non-trivial = >=3 wallet transactions synced and >=1 oracle evaluation with a non-empty history; "
        "distinct = distinct event-trace digest.")
COMPONENTS = {
    'real': ['lbry.wallet.ledger.Ledger (subscribe_accounts, subscribe_addresses, process_status_update, '
             'update_history, request_transactions, _single_batch, _sync_and_save_batch, _sync, '
             'maybe_verify_transaction, receive_header, update_headers)',
             'lbry.wallet.database.Database/AIOSQLite (sqlite3 :memory:)', 'lbry.wallet.account.Account',
             'lbry.wallet.account.HierarchicalDeterministic', 'lbry.wallet.network.Network request wrappers + '
             'retriable_call', 'lbry.wallet.header.Headers (validate_difficulty=False)', 'lbry.wallet.tasks.TaskGroup',
             'lbry.wallet.stream.StreamController', 'lbry.wallet.transaction.Transaction/Output/Input',
             'lbry.wallet.script.OutputScript', 'lbry.wallet.bip32 key derivation'],
    'stub': ['Network.rpc / is_connected / client (in-process reference hub, virtual latency, injected transient '
             'failures)', 'ThreadPoolExecutor / ProcessPoolExecutor of AIOSQLite (inline jobs at scheduler-drawn '
             'virtual instants)', 'event loop (SimLoop, virtual time)',
             'header notifications are handed to Ledger.receive_header directly (StreamController.add cannot run '
             'coroutine listeners on Python >= 3.11)'],
}
ASSUMPTIONS = [
    'the hub never retracts a transaction (mempool -> block only) and keeps <= 100 transactions per address',
    'claim names and claim payloads are arbitrary bytes on chain (consensus validates neither): families '
    'hostile_name / hostile_channel_key only use scripts that match the wallet templates; the account holds its '
    'private key (default, unlocked wallet)',
    'notifications for one address are FIFO and never overtake the subscribe reply of that address; everything '
    'else (replies of different requests, notifications of different addresses) interleaves freely',
    'the last notification sent for an address after a change carries its current status (as a real hub does)',
    'transient RPC failures only hit get_history / get_transaction_batch / get_merkle / get_headers '
    '(a subscribe timeout makes the product drop the session, which is not modelled)',
    'sqlite commits are atomic; executor jobs of the single-writer executor complete in FIFO order',
    'asyncio ready-queue order is FIFO (never permuted)',
]
EXPECTED_PROBES = ['notification_overtook_batch_fetch', 'duplicate_notification', 'stale_status',
                   'spend_resolved_from_pending_batch', 'spend_resolved_from_db', 'gap_extended', 'claim_output',
                   'update_output', 'support_output', 'purchase_pair', 'segwit_tx', 'mempool_then_confirmed',
                   'third_party_exotic', 'third_party_standard', 'unconfirmed_parent', 'multi_address_tx',
                   'spend_to_same_address', 'mixed_foreign_inputs', 'spend_third_party_output', 'stage_overlap',
                   'initial_sync_with_history', 'funded_at_gap_edge', 'history_reordered', 'oracle_checked',
                   'burst_to_limit', 'used_at_subscribe_time', 'cascade_discovery_at_subscribe', 'restore_checked',
                   'ladder', 'verified_spend_known_before_funding', 'non_utf8_name_paid_to_wallet',
                   'non_utf8_name_third_party_in_wallet_spend', 'odd_valid_name', 'malformed_channel_key',
                   'wellformed_foreign_channel_key']
MAX_BUDGET_FRACTION = 0.02

QUIESCE_BOUND = 600.0     # virtual seconds allowed between the last notification and quiescence


# ---------------------------------------------------------------------------------------------------
# generation
# ---------------------------------------------------------------------------------------------------

def _third(r, family):
    from simverif.core.hub import THIRD_STANDARD, THIRD_EXOTIC
    if family == 'exotic' and r.random() < 0.45:
        k = r.choice(THIRD_EXOTIC)
    else:
        k = r.choice(THIRD_STANDARD)
    t = {'k': k, 'amt': r.choice([0, 1, 546, 10 ** 5, 10 ** 8])}
    if k == 'garbage':
        n = r.randint(1, 24)
        t['g'] = r.getrandbits(8 * n).to_bytes(n, 'big').hex()
    return t


def _idx(r):
    x = r.random()
    if x < 0.5:
        return ['rel', round(r.random(), 4)]
    if x < 0.65:
        return ['edge']
    if x < 0.9:
        return ['used', round(r.random(), 4)]
    return ['abs', r.choice([0, 1, 2, 3, 5, 8])]


def _pay(r):
    kind = r.choices(['plain', 'claim', 'update', 'support', 'support_data'], [60, 14, 7, 12, 7])[0]
    p = {'chain': 0 if r.random() < 0.65 else 1, 'idx': _idx(r), 'kind': kind,
         'amt': r.choice([0, 1, 1000, 5 * 10 ** 5, 10 ** 8, 3 * 10 ** 8, 21 * 10 ** 14])}
    if kind != 'plain':
        p['name'] = r.choice(['a', 'sim', 'x' * 40, 'été'])
        p['cid'] = r.getrandbits(160).to_bytes(20, 'big').hex()
    if kind in ('claim', 'update'):
        p['payload'] = r.choice(['stream', 'stream', 'channel', 'repost', 'collection', 'junk', 'empty', 'big'])
    return p


def _tx(r, family, n, first):
    op = {'op': 'tx', 'n': n, 'pays': [], 'spends': [], 'spend_third': [], 'third': [],
          'foreign_in': 0, 'segwit': r.random() < 0.25, 'purchase': r.random() < 0.08,
          'order': r.getrandbits(32), 'version': r.choice([1, 1, 2])}
    spending = (not first) and r.random() < 0.55
    if spending:
        op['spends'] = [round(r.random(), 4) for _ in range(r.choice([1, 1, 2, 3]))]
        if r.random() < 0.4:
            op['foreign_in'] = r.choice([1, 2])
    if r.random() < 0.12:
        op['spend_third'] = [round(r.random(), 4)]
    n_pay = r.choice([1, 1, 1, 2, 3]) if not spending else r.choice([0, 1, 1, 2])
    op['pays'] = [_pay(r) for _ in range(n_pay)]
    for _ in range(r.choice([0, 0, 1, 1, 2, 3])):
        op['third'].append(_third(r, family))
    return op


def gen(run_seed, tier):
    r = stream('C09.gen', run_seed)
    family = r.choices(['standard', 'exotic', 'faulty'], [50, 20, 30])[0]
    big = tier != 'quick'
    n_stages = r.randint(2, 5) if not big else r.randint(2, 8)
    sc = {
        'family': family,
        'wallet_seed': r.getrandbits(64) or 1,
        'recv_gap': r.choice([2, 3, 4, 6, 20]),
        'change_gap': r.choice([1, 2, 3, 6]),
        'mempool_order': r.choice(['arrival', 'txid']),
        'latency': r.choice(['fast', 'lan', 'lan', 'wan', 'wild']),
        'exec_delay': r.choice([[0.0, 0.002], [0.0, 0.002], [0.0, 0.05], [0.0, 0.6]]),
        'fault_p': r.choice([0.03, 0.1, 0.3]) if family == 'faulty' else 0.0,
    }
    dup = r.choice([0.0, 0.2, 0.5]) if family != 'faulty' else r.choice([0.3, 0.6])
    stale = r.choice([0.0, 0.2, 0.5]) if family != 'faulty' else r.choice([0.3, 0.6])
    ops = []
    n = 0
    start_stage = r.choice([0, 0, 1])
    first = True
    for s in range(n_stages):
        if s == start_stage:
            ops.append({'op': 'start', 'n': n}); n += 1
            if s > 0 and r.random() < 0.6:
                # restore from seed against a pre-populated hub: judge the initial sync on its own, before any
                # pushed notification can re-establish the gap
                ops.append({'op': 'stage', 'n': n, 'wait': True, 'spread': 0.0, 'dup': 0.0, 'stale': 0.0,
                            'restore': True}); n += 1
        if r.random() < 0.15:
            # several payments of one stage climbing through the gap window (#i, #i+<=gap, ...): discovery has
            # to cascade through freshly generated addresses that are already used when first subscribed
            ops.append({'op': 'ladder', 'n': n, 'chain': 0 if r.random() < 0.7 else 1,
                        'steps': [r.choice([1.0, 1.0, 0.6, round(r.random(), 3)]) for _ in range(r.choice([2, 3, 4]))],
                        'amt': r.choice([1000, 2 * 10 ** 8])}); n += 1
            first = False
        if r.random() < 0.06:
            ops.append({'op': 'burst', 'n': n, 'chain': r.choice([0, 1]), 'idx': _idx(r),
                        'count': r.choice([30, 60, 99, 100, 120]) if big or r.random() < 0.3 else r.choice([8, 20]),
                        'amt': 1000, 'spend_some': r.random() < 0.5})
            n += 1
            first = False
        for _ in range(r.randint(1, 5 if not big else 9)):
            ops.append(_tx(r, family, n, first)); n += 1
            first = False
            if r.random() < 0.15:
                ops.append({'op': 'block', 'n': n, 'take': r.choice([1.0, 1.0, 0.5]), 'fill': r.choice([0, 1, 2, 5]),
                            'hdr': r.choice([None, 0.0, 0.5, 5.0])}); n += 1
        if r.random() < 0.55:
            ops.append({'op': 'block', 'n': n, 'take': r.choice([1.0, 1.0, 0.5, 0.3]), 'fill': r.choice([0, 1, 3, 7]),
                        'hdr': r.choice([None, 0.0, 0.0, 0.5, 5.0])}); n += 1
        last = s == n_stages - 1
        ops.append({'op': 'stage', 'n': n, 'wait': True if last else r.random() < 0.65,
                    'spread': r.choice([0.0, 0.01, 0.2, 2.0, 8.0]), 'dup': dup, 'stale': stale}); n += 1
        if not ops[-1]['wait'] and r.random() < 0.6:
            ops.append({'op': 'pause', 'n': n, 'dt': r.choice([0.001, 0.02, 0.3, 3.0])}); n += 1
    if family == 'exotic':
        # make sure at least one wallet-related transaction carries a non-template output
        from simverif.core.hub import THIRD_EXOTIC
        txs = [o for o in ops if o['op'] == 'tx' and o['pays']]
        if txs and not any(t['k'] in THIRD_EXOTIC for o in txs for t in o['third']):
            k = r.choice([k for k in THIRD_EXOTIC if k != 'garbage'])
            r.choice(txs)['third'].append({'k': k, 'amt': 1000})
    sc['ops'] = ops
    _hostile_data(run_seed, sc)
    return sc


def _hostile_data(run_seed, sc):
    """Turn ~16 % of the runs into one of two fault-free families whose transactions carry data that matches
    every script template but is hostile one layer further in.  Decided and drawn on its own stream."""
    from simverif.core import hub as H
    h = stream('C09.gen.hostile_data', run_seed)
    x = h.random()
    if x >= 0.16:
        return
    txs = [o for o in sc['ops'] if o['op'] == 'tx' and o['pays']]
    if not txs:
        return
    sc['fault_p'] = 0.0
    if x < 0.08:
        # claim / support / update NAMES that are not valid UTF-8 (plus odd valid ones as controls): on outputs
        # paying the wallet (a tip anybody can send) and on third-party outputs of transactions spending wallet coins
        sc['family'] = 'hostile_name'
        names = sorted(H.HOSTILE_NAMES)
        odd = sorted(H.ODD_VALID_NAMES)

        def pick():
            return (H.HOSTILE_NAMES[h.choice(names)] if h.random() < 0.8 else H.ODD_VALID_NAMES[h.choice(odd)]).hex()
        injected = 0
        for o in txs:
            for p in o['pays']:
                if p['kind'] != 'plain' and h.random() < 0.5:
                    p['name_hex'] = pick()
                    injected += 1
            if o['spends'] and h.random() < 0.6:
                o['third'].append({'k': h.choice(['claim_p2pkh', 'support_p2pkh', 'claim_p2sh', 'update_p2sh',
                                                  'support_p2sh']), 'amt': 1000, 'name_hex': pick()})
                injected += 1
        for _ in range(1 if injected else 2):
            o = h.choice(txs)
            if o['spends'] and h.random() < 0.5:
                o['third'].append({'k': h.choice(['claim_p2pkh', 'support_p2pkh']), 'amt': 1000,
                                   'name_hex': H.HOSTILE_NAMES[h.choice(names)].hex()})
            else:
                p = h.choice(o['pays'])
                p.update(kind=h.choice(['support', 'support', 'claim', 'update', 'support_data']),
                         name_hex=H.HOSTILE_NAMES[h.choice(names)].hex(),
                         cid=h.getrandbits(160).to_bytes(20, 'big').hex(), payload='stream')
                p.pop('name', None)
    else:
        # CHANNEL claims whose public key is neither 33 raw bytes nor DER of a secp256k1 key (plus well-formed
        # controls): somebody else's channel in a transaction that touches the wallet, or one paid to the wallet
        sc['family'] = 'hostile_channel_key'
        bad = sorted(H.MALFORMED_CHANNEL_KEYS)
        good = sorted(H.WELLFORMED_CHANNEL_KEYS)
        forced = h.choice(txs)
        for o in txs:
            if o is forced or h.random() < 0.3:
                if o is forced or h.random() < 0.8:
                    pl = H.channel_payload(H.MALFORMED_CHANNEL_KEYS[h.choice(bad)]).hex()
                else:
                    pl = H.channel_payload(H.WELLFORMED_CHANNEL_KEYS[h.choice(good)]).hex()
                if h.random() < 0.75:
                    o['third'].append({'k': h.choice(['claim_p2pkh', 'claim_p2sh', 'update_p2sh']), 'amt': 1000,
                                       'name_hex': b'@x'.hex(), 'payload_hex': pl})
                else:
                    p = h.choice(o['pays'])
                    p.update(kind=h.choice(['claim', 'update']), name='@mine', payload_hex=pl,
                             cid=h.getrandbits(160).to_bytes(20, 'big').hex())


def shrink(sc):
    if sc.get('fault_p'):
        yield dict(sc, fault_p=0.0)
    if sc.get('latency') != 'fast':
        yield dict(sc, latency='fast')
    if sc.get('exec_delay') != [0.0, 0.002]:
        yield dict(sc, exec_delay=[0.0, 0.002])
    if sc.get('mempool_order') != 'arrival':
        yield dict(sc, mempool_order='arrival')
    if sc.get('recv_gap') != 2:
        yield dict(sc, recv_gap=2)
    if sc.get('change_gap') != 1:
        yield dict(sc, change_gap=1)
    for i, op in enumerate(sc['ops']):
        def repl(new):
            ops = list(sc['ops'])
            ops[i] = new
            return dict(sc, ops=ops)
        if op['op'] == 'stage':
            if op.get('dup') or op.get('stale') or op.get('spread'):
                yield repl(dict(op, dup=0.0, stale=0.0, spread=0.0))
            if not op.get('wait'):
                yield repl(dict(op, wait=True))
        elif op['op'] == 'tx':
            for key in ('third', 'pays', 'spends', 'spend_third'):
                for j in range(len(op.get(key, []))):
                    lst = list(op[key])
                    del lst[j]
                    yield repl(dict(op, **{key: lst}))
            if op.get('segwit'):
                yield repl(dict(op, segwit=False))
            if op.get('purchase'):
                yield repl(dict(op, purchase=False))
            if op.get('foreign_in'):
                yield repl(dict(op, foreign_in=0))
            for j, p in enumerate(op.get('pays', [])):
                if p.get('kind') != 'plain':
                    lst = list(op['pays'])
                    lst[j] = {'chain': p['chain'], 'idx': p['idx'], 'kind': 'plain', 'amt': p['amt']}
                    yield repl(dict(op, pays=lst))
                if p.get('idx') != ['abs', 0]:
                    lst = list(op['pays'])
                    lst[j] = dict(p, idx=['abs', 0])
                    yield repl(dict(op, pays=lst))
        elif op['op'] == 'block':
            if op.get('fill') or op.get('hdr') is not None or op.get('take') != 1.0:
                yield repl(dict(op, fill=0, hdr=None, take=1.0))
        elif op['op'] == 'burst' and op.get('count', 0) > 2:
            yield repl(dict(op, count=op['count'] // 2))


# ---------------------------------------------------------------------------------------------------
# scenario operations on the hub (shared with C08)
# ---------------------------------------------------------------------------------------------------

def resolve_index(W, chain, spec):
    maxf = W.max_fundable(chain)
    kind = spec[0]
    if kind == 'edge':
        return maxf, True
    if kind == 'used':
        used = W.hub.used_addresses(chain)
        if used:
            a = used[min(len(used) - 1, int(spec[1] * len(used)))]
            return W.hub.wallet_addrs[a][1], False
        kind, spec = 'rel', ['rel', spec[1]]
    if kind == 'abs':
        return min(int(spec[1]), maxf), False
    i = min(maxf, int(spec[1] * (maxf + 1)))
    return i, i == maxf


def build_tx(W, run, op):
    """Create the transaction described by `op` in the hub's mempool -> HubTx or None (skipped)."""
    from simverif.core import hub as H
    hub = W.hub
    rng = run.rng('tx', op['n'])
    rb = lambda k: rng.getrandbits(8 * k).to_bytes(k, 'big')  # noqa: E731
    segwit = bool(op.get('segwit'))

    def unlock():
        sig, pk = rb(rng.choice([71, 72])), b'\x02' + rb(32)
        return sig, pk

    ins = []
    spent_addresses = []
    unspent = sorted(hub.unspent_wallet_outputs(), key=lambda o: (hub.txs[o[0]].seq, o[1]))
    for f in op.get('spends', []):
        cand = [o for o in unspent if all((i.prev_txid, i.prev_n) != o for i in ins)]
        if not cand:
            break
        o = cand[min(len(cand) - 1, int(f * len(cand)))]
        sig, pk = unlock()
        ins.append(H.TxIn(o[0], o[1], H.push(sig) + H.push(pk)))
        spent_addresses.append(hub.wouts[o].address)
    third_spent = 0
    tunspent = sorted((o for o in hub.touts if o not in hub.spent), key=lambda o: (hub.txs[o[0]].seq, o[1]))
    for f in op.get('spend_third', []):
        cand = [o for o in tunspent if all((i.prev_txid, i.prev_n) != o for i in ins)]
        if not cand:
            break
        o = cand[min(len(cand) - 1, int(f * len(cand)))]
        sig, pk = unlock()
        ins.append(H.TxIn(o[0], o[1], H.push(sig) + H.push(pk)))
        third_spent += 1
    n_foreign = int(op.get('foreign_in', 0)) or (0 if ins else 1)
    for _ in range(n_foreign):
        sig, pk = unlock()
        ins.append(H.TxIn(rb(32).hex(), rng.randrange(6), H.push(sig) + H.push(pk)))
    if segwit:
        for k, i in enumerate(ins):
            if k == 0 or rng.random() < 0.5:
                sig, pk = unlock()
                i.witness = [sig, pk]
                if rng.random() < 0.7:
                    i.script_sig = b''

    outs = []
    edge = False
    hostile_names, hostile_payloads, third_hostile_names = [], [], []
    for p in op.get('pays', []):
        chain = 1 if p.get('chain') else 0
        idx, at_edge = resolve_index(W, chain, p.get('idx', ['abs', 0]))
        edge = edge or at_edge
        address = W.address(chain, idx)
        h160 = H.address_to_h160(address)
        kind = p.get('kind', 'plain')
        name = bytes.fromhex(p['name_hex']) if 'name_hex' in p else p.get('name', 'a').encode()
        cid = bytes.fromhex(p.get('cid', '00' * 20))
        payload = bytes.fromhex(p['payload_hex']) if 'payload_hex' in p else \
            H.PAYLOADS.get(p.get('payload', 'stream'), b'')
        if p.get('kind', 'plain') != 'plain' and 'name_hex' in p:
            hostile_names.append(name)
        if p.get('kind') in ('claim', 'update') and 'payload_hex' in p:
            hostile_payloads.append(payload)
        if kind == 'claim':
            script = H.claim_prefix(name, payload) + H.p2pkh(h160)
        elif kind == 'update':
            script = H.update_prefix(name, cid, payload) + H.p2pkh(h160)
        elif kind == 'support':
            script = H.support_prefix(name, cid) + H.p2pkh(h160)
        elif kind == 'support_data':
            script = H.support_data_prefix(name, cid, H.SUPPORT_DATA) + H.p2pkh(h160)
        else:
            kind, script = 'plain', H.p2pkh(h160)
        outs.append(H.TxOut(int(p.get('amt', 1)), script, address, kind))
    exotic = standard = 0
    for t in op.get('third', []):
        k = t.get('k', 'p2pkh')
        try:
            script = H.third_party_script(k, rng, t.get('g'),
                                          bytes.fromhex(t['name_hex']) if 'name_hex' in t else None,
                                          bytes.fromhex(t['payload_hex']) if 'payload_hex' in t else None)
        except ValueError:
            continue
        if 'name_hex' in t:
            third_hostile_names.append(bytes.fromhex(t['name_hex']))
        if 'payload_hex' in t:
            hostile_payloads.append(bytes.fromhex(t['payload_hex']))
        outs.append(H.TxOut(int(t.get('amt', 0)), script, None, 'third:' + k))
        if k in H.THIRD_EXOTIC:
            exotic += 1
        else:
            standard += 1
    random.Random(op.get('order', 0)).shuffle(outs)
    purchase = False
    if op.get('purchase'):
        first_plain = next((o for o in outs if o.kind == 'plain'), None)
        if first_plain is not None:
            outs.remove(first_plain)
            outs.insert(0, first_plain)
            outs.insert(1, H.TxOut(0, H.OP_RETURN + H.push(H.PURCHASE_DATA), None, 'third:purchase_data'))
            purchase = True
    if not outs:
        outs.append(H.TxOut(1000, H.p2pkh(rb(20)), None, 'third:p2pkh'))
    if hub.would_exceed(ins, outs):
        run.probes['skipped_address_limit'] += 1
        return None
    tx = hub.add_tx(ins, outs, segwit=segwit, version=int(op.get('version', 1)))
    if tx is None:
        return None
    touched = hub.touched_addresses(ins, outs)
    if touched:
        run.probes['wallet_tx'] += 1
        for o in outs:
            if o.kind in ('claim', 'update', 'support', 'support_data'):
                run.probes[{'support_data': 'support'}.get(o.kind, o.kind) + '_output'] += 1
        if purchase:
            run.probes['purchase_pair'] += 1
        if segwit:
            run.probes['segwit_tx'] += 1
        def not_utf8(b):
            try:
                b.decode()
                return False
            except UnicodeDecodeError:
                return True
        if any(not_utf8(b) for b in hostile_names):
            run.probes['non_utf8_name_paid_to_wallet'] += 1
        if spent_addresses and any(not_utf8(b) for b in third_hostile_names):
            run.probes['non_utf8_name_third_party_in_wallet_spend'] += 1
        if any(not not_utf8(b) for b in hostile_names + third_hostile_names if b != b'@x'):
            run.probes['odd_valid_name'] += 1
        for pl in hostile_payloads:
            keys = [k for k, v in sorted(H.MALFORMED_CHANNEL_KEYS.items()) if H.channel_payload(v) == pl]
            if keys:
                run.probes['malformed_channel_key'] += 1
                run.probes['malformed_channel_key:' + keys[0]] += 1
            elif any(H.channel_payload(v) == pl for v in H.WELLFORMED_CHANNEL_KEYS.values()):
                run.probes['wellformed_foreign_channel_key'] += 1
        if exotic:
            run.probes['third_party_exotic'] += 1
        if standard:
            run.probes['third_party_standard'] += 1
        if len(touched) > 1:
            run.probes['multi_address_tx'] += 1
        if spent_addresses:
            run.probes['wallet_spend'] += 1
            if any(o.address in spent_addresses for o in outs):
                run.probes['spend_to_same_address'] += 1
            if any(o.address is not None and o.address not in spent_addresses for o in outs):
                run.probes['spend_to_other_address'] += 1
            if n_foreign:
                run.probes['mixed_foreign_inputs'] += 1
        if third_spent:
            run.probes['spend_third_party_output'] += 1
        if edge:
            run.probes['funded_at_gap_edge'] += 1
        if hub._mempool_height(tx) == -1:
            run.probes['unconfirmed_parent'] += 1
    run.ev('tx', op['n'], tx.txid[:12], len(ins), len(outs), [hub.wallet_addrs[a] for a in touched])
    return tx


def do_burst(W, run, op):
    """`count` small fundings of one address (never beyond the hub's 100-per-address limit)."""
    from simverif.core import hub as H
    hub = W.hub
    rng = run.rng('burst', op['n'])
    chain = 1 if op.get('chain') else 0
    idx, _ = resolve_index(W, chain, op.get('idx', ['abs', 0]))
    address = W.address(chain, idx)
    h160 = H.address_to_h160(address)
    made = 0
    for k in range(int(op.get('count', 1))):
        if len(hub.addr_txs.get(address, ())) >= hub.MAX_PER_ADDRESS:
            break
        ins = []
        if op.get('spend_some') and k % 3 == 2:
            mine = [o for o, out in hub.unspent_wallet_outputs().items() if out.address == address]
            mine.sort(key=lambda o: (hub.txs[o[0]].seq, o[1]))
            if mine:
                ins.append(H.TxIn(mine[0][0], mine[0][1], H.push(b'\x30' * 71) + H.push(b'\x02' * 33)))
        if not ins:
            ins.append(H.TxIn(rng.getrandbits(256).to_bytes(32, 'big').hex(), 0, H.push(b'\x30' * 71) + H.push(b'\x02' * 33)))
        outs = [H.TxOut(int(op.get('amt', 1000)) + k, H.p2pkh(h160), address, 'plain')]
        if hub.add_tx(ins, outs) is not None:
            made += 1
            run.probes['wallet_tx'] += 1
    if len(hub.addr_txs.get(address, ())) >= hub.MAX_PER_ADDRESS:
        run.probes['burst_to_limit'] += 1
    run.ev('burst', op['n'], (chain, idx), made)


def do_ladder(W, run, op):
    """Payments climbing through the gap window of one chain: each goes to an index in
    (last used, last used + gap] of the chain state left by the previous one."""
    from simverif.core import hub as H
    hub = W.hub
    rng = run.rng('ladder', op['n'])
    chain = 1 if op.get('chain') else 0
    gap = W.gaps[chain]
    made = []
    for f in op.get('steps', [1.0]):
        last = hub.last_used(chain)
        idx = last + max(1, min(gap, int(round(float(f) * gap))))
        address = W.address(chain, idx)
        ins = [H.TxIn(rng.getrandbits(256).to_bytes(32, 'big').hex(), 0, H.push(b'\x30' * 71) + H.push(b'\x02' * 33))]
        outs = [H.TxOut(int(op.get('amt', 1000)), H.p2pkh(H.address_to_h160(address)), address, 'plain')]
        if hub.add_tx(ins, outs) is not None:
            made.append(idx)
            run.probes['wallet_tx'] += 1
    if len(made) > 1:
        run.probes['ladder'] += 1
    run.ev('ladder', op['n'], chain, made)


def do_block(W, run, op):
    hub = W.hub
    rng = run.rng('block', op['n'])
    if not hub.blocks:
        hub.mine(rng, [], 0)           # genesis
        W.deliver_header(0, 0.0)
    chosen = hub.select_for_block(rng, float(op.get('take', 1.0)))
    blk = hub.mine(rng, chosen, int(op.get('fill', 0)))
    run.ev('block', op['n'], blk.height, len(blk.txids), len(chosen))
    if op.get('hdr') is not None:
        W.deliver_header(blk.height, float(op['hdr']))
    return blk


def do_stage_notifications(W, run, op, sent_statuses):
    hub = W.hub
    rng = run.rng('stage', op['n'])
    changed = hub.changed_addresses()
    rng.shuffle(changed)
    spread = float(op.get('spread', 0.0))
    for a, prev, cur in changed:
        d = rng.random() * spread
        olds = [s for s in sent_statuses.get(a, []) if s is not None and s != cur]
        if olds and rng.random() < float(op.get('stale', 0.0)):
            W.notify(a, rng.choice(olds), d * rng.random(), 'stale')
        W.notify(a, cur, d, 'current')
        hub.subscribed[a] = cur
        sent_statuses.setdefault(a, []).append(cur)
        if rng.random() < float(op.get('dup', 0.0)):
            W.notify(a, cur, d + rng.random() * max(spread, 0.01), 'dup')
    run.ev('stage', op['n'], len(changed))
    return len(changed)


def install_probes(W, run):
    """Observation-only wrappers on the ledger instance (reach probes; behaviour unchanged)."""
    ledger = W.ledger
    orig_sync = ledger._sync

    def observed_sync(tx, remote_history, pending_txs):
        for txi in tx.inputs:
            if txi.txo_ref.txo is None:
                wanted = txi.txo_ref.tx_ref.id
                if wanted in remote_history:
                    run.probes['spend_resolved_from_pending_batch' if wanted in pending_txs
                               else 'spend_resolved_from_db'] += 1
        return orig_sync(tx, remote_history, pending_txs)
    ledger._sync = observed_sync

    seen_heights = {}
    fetched_nonempty = set()
    orig_handle = W.hub.handle

    def observed_handle(method, args):
        res = orig_handle(method, args)
        hub = W.hub
        if method == 'blockchain.address.subscribe':
            for a, status in zip(args, res):
                if status is not None and a in hub.wallet_addrs:
                    run.probes['used_at_subscribe_time'] += 1
                    chain, idx = hub.wallet_addrs[a]
                    if idx >= W.gaps[chain]:
                        run.probes['cascade_discovery_at_subscribe'] += 1
        if method == 'blockchain.address.get_history' and res and args[0] not in fetched_nonempty:
            fetched_nonempty.add(args[0])
            # first non-empty history fetched for X: does it hold a funding tx and the tx spending it while the
            # wallet already stores the spending tx as verified (learned through another address) but not the
            # funding tx?  (the schedule a ledger-wide verified-tx cache must survive)
            x = args[0]
            in_hist = {e['tx_hash'] for e in res}
            for e in res:
                tx = hub.txs[e['tx_hash']]
                for i in tx.ins:
                    o = hub.wouts.get((i.prev_txid, i.prev_n))
                    if o is not None and o.address == x and i.prev_txid in in_hist:
                        rows = dict((r[0], r[1]) for r in W.sql(
                            "select txid, is_verified from tx where txid in (?, ?)", (tx.txid, i.prev_txid)))
                        if rows.get(tx.txid) and i.prev_txid not in rows:
                            run.probes['verified_spend_known_before_funding'] += 1
        if method == 'blockchain.address.get_history':
            prev = seen_heights.setdefault(args[0], {})
            order_prev = [t for t in prev.get('__order__', [])]
            order_now = [e['tx_hash'] for e in res]
            if order_prev and order_now[:len(order_prev)] != order_prev and set(order_prev) <= set(order_now):
                run.probes['history_reordered'] += 1
            for e in res:
                old = prev.get(e['tx_hash'])
                if old is not None and old <= 0 < e['height']:
                    run.probes['mempool_then_confirmed'] += 1
                prev[e['tx_hash']] = e['height']
            prev['__order__'] = order_now
        return res
    W.hub.handle = observed_handle


# ---------------------------------------------------------------------------------------------------
# oracle
# ---------------------------------------------------------------------------------------------------

async def check_converged(W, run, where):
    """All clauses of the statement against the hub's current view. -> violation or None."""
    hub = W.hub
    cause = W.cause()
    extra = f' [task failures: {W.failure_text()}]' if W.failures else ''
    rows = W.sql("select a.chain, a.n, a.address, p.history, p.used_times from account_address a "
                 "join pubkey_address p using (address) where a.account = ? order by a.chain, a.n", (W.account.id,))
    known = {}
    per_chain = {0: [], 1: []}
    for chain, n, address, history, used in rows:
        known[address] = (chain, n, history or '', used)
        per_chain[chain].append((n, address))
    # every address the wallet knows is the one the hub derives for that position
    for chain in (0, 1):
        for pos, (n, address) in enumerate(per_chain[chain]):
            if n != pos or address != W.address(chain, n):
                return run.violation('C09.gap', f'{where}: chain {chain} address list is not the contiguous derivation '
                                     f'sequence at position {pos} (n={n}){extra}', cause=cause)
    # stored history == hub history, for every wallet address
    for address in sorted(known, key=lambda a: known[a][:2]):
        chain, n, history, used = known[address]
        want = hub.history_string(address)
        if history != want:
            have_n, want_n = history.count(':') // 2, want.count(':') // 2
            return run.violation('C09.history_mismatch', f'{where}: address chain={chain} index={n}: stored history has '
                                 f'{have_n} entries, hub history {want_n}; stored={history[:140]!r} hub={want[:140]!r}'
                                 f'{extra}', cause=cause)
        if used != want.count(':') // 2:
            return run.violation('C09.history_mismatch', f'{where}: address chain={chain} index={n}: used_times={used} '
                                 f'but history has {want.count(":") // 2} entries{extra}', cause=cause)
    # funds sent within the gap limit are found: every funded address is known
    for address in sorted(a for a, t in hub.addr_txs.items() if t):
        if address not in known:
            c, i = hub.wallet_addrs[address]
            return run.violation('C09.gap', f'{where}: address chain={c} index={i} has {len(hub.addr_txs[address])} '
                                 f'transactions on the hub but is unknown to the wallet (known: '
                                 f'{len(per_chain[c])} addresses, gap {W.gaps[c]}){extra}', cause=cause)
    # balance / spendable set
    unspent = hub.unspent_wallet_outputs()
    want_total = sum(o.amount for o in unspent.values())
    want_spendable = {op: o.amount for op, o in unspent.items() if o.kind == 'plain'}
    got_total = await W.account.get_balance(include_claims=True)
    if got_total != want_total:
        return run.violation('C09.balance_mismatch', f'{where}: get_balance(include_claims=True)={got_total}, hub: '
                             f'{want_total} over {len(unspent)} unspent outputs{extra}', cause=cause)
    got_spendable = await W.account.get_balance()
    if got_spendable != sum(want_spendable.values()):
        return run.violation('C09.balance_mismatch', f'{where}: get_balance()={got_spendable}, hub spendable: '
                             f'{sum(want_spendable.values())} (claims/supports apart: '
                             f'{want_total - sum(want_spendable.values())}){extra}', cause=cause)
    utxos = await W.account.get_utxos()
    got = {}
    for txo in utxos:
        key = (txo.tx_ref.id, txo.position)
        if key in got:
            return run.violation('C09.utxo_mismatch', f'{where}: get_utxos() lists {key} twice{extra}', cause=cause)
        got[key] = txo.amount
    if got != want_spendable:
        missing = sorted(set(want_spendable) - set(got))[:3]
        surplus = sorted(set(got) - set(want_spendable))[:3]
        return run.violation('C09.utxo_mismatch', f'{where}: get_utxos() has {len(got)} outputs, hub {len(want_spendable)}; '
                             f'missing={missing} surplus={surplus}{extra}', cause=cause)
    # the spend record itself (txi = "inputs spending ours"): every row refers to an output that pays the wallet
    # address stored in the row (balance/UTXO above already prove that every spent wallet output has a row)
    for txid, txoid, address in W.sql("select txid, txoid, address from txi order by txoid"):
        prev_txid, _, prev_n = txoid.rpartition(':')
        o = hub.wouts.get((prev_txid, int(prev_n)))
        if o is None or o.address != address or hub.spent.get((prev_txid, int(prev_n))) != txid:
            owner = None if o is None else hub.wallet_addrs.get(o.address)
            return run.violation('C09.spend_record_mismatch', f'{where}: txi row says transaction {txid[:16]} spends '
                                 f'{txoid[:16]}..:{prev_n} of wallet address {hub.wallet_addrs.get(address)}, but on the '
                                 f'hub that output {"is not a wallet output" if o is None else f"pays {owner}"} and is '
                                 f'spent by {str(hub.spent.get((prev_txid, int(prev_n))))[:16]}{extra}', cause=cause)
    # gap maintained: each chain ends with exactly `gap` unused addresses
    for chain in (0, 1):
        trailing = 0
        for n, address in reversed(per_chain[chain]):
            if hub.addr_txs.get(address):
                break
            trailing += 1
        if trailing != W.gaps[chain]:
            return run.violation('C09.gap', f'{where}: chain {chain} ends with {trailing} unused addresses, gap is '
                                 f'{W.gaps[chain]} ({len(per_chain[chain])} addresses, last used index '
                                 f'{hub.last_used(chain)}){extra}', cause=cause)
    n_hist = sum(1 for a in known if known[a][2])
    run.probes['oracle_checked'] += 1
    if n_hist:
        run.probes['oracle_checked_nonempty'] += 1
    run.ev('check', where, len(known), n_hist, got_total, got_spendable, len(got))
    return None


# ---------------------------------------------------------------------------------------------------
# execution
# ---------------------------------------------------------------------------------------------------

def execute(scenario, keep_trace=False):
    env.import_lbry()
    from simverif.core import hub as H

    run = Run(scenario, keep_trace)
    loop = run.new_loop(max_steps=3_000_000, max_vtime=50_000.0,
                        exec_delay=tuple(scenario.get('exec_delay', (0.0, 0.002))))
    W = H.WalletSync(run, loop, scenario)
    install_probes(W, run)
    ops = scenario.get('ops', [])
    sent_statuses = {}
    state = {'started': False, 'initial_addresses': None}

    async def settle(where):
        ok = await W.quiesce(QUIESCE_BOUND)
        if not ok:
            pend = len(W.ledger._update_tasks)
            run.violation('C09.stuck', f'{where}: not quiescent {QUIESCE_BOUND:.0f} virtual seconds after the last '
                          f'notification ({pend} update tasks pending, {W.inflight} hub messages in flight) '
                          f'[task failures: {W.failure_text()}]', cause=W.cause())
            return False
        if not state['started']:
            return True
        return await check_converged(W, run, where) is None

    def start_wallet():
        if state['started']:
            return
        state['started'] = True
        if any(t for t in W.hub.addr_txs.values()):
            run.probes['initial_sync_with_history'] += 1
        W.start()
        run.ev('start')

    async def driver():
        await W.open()
        if not any(o.get('op') == 'start' for o in ops):
            start_wallet()
        for op in ops:
            kind = op.get('op')
            if kind == 'start':
                start_wallet()
            elif kind == 'tx':
                build_tx(W, run, op)
            elif kind == 'burst':
                do_burst(W, run, op)
            elif kind == 'ladder':
                do_ladder(W, run, op)
            elif kind == 'block':
                do_block(W, run, op)
            elif kind == 'pause':
                await asyncio.sleep(float(op.get('dt', 0.0)))
            elif kind == 'stage':
                do_stage_notifications(W, run, op, sent_statuses)
                if op.get('wait', True):
                    if op.get('restore') and state['started']:
                        run.probes['restore_checked'] += 1
                    if not await settle(f"stage op {op['n']}"):
                        return
                else:
                    run.probes['stage_overlap'] += 1
                    await asyncio.sleep(0)
            if run.violations:
                return
        # final settlement: everything that changed is notified, then the oracle runs once more
        start_wallet()
        do_stage_notifications(W, run, {'op': 'stage', 'n': 'final', 'spread': 0.05, 'dup': 0.0, 'stale': 0.0},
                               sent_statuses)
        await settle('final')

    try:
        run.drive(driver())
    except (SimBudget, SimIdle):
        pass
    finally:
        try:
            n_addr = W.sql("select count(*) from account_address")[0][0] if W.db.db is not None else 0
            if W.account is not None and n_addr > W.recv_gap + W.change_gap:
                run.probes['gap_extended'] += 1
        except Exception:
            pass
        W.close()
    run.nontrivial = run.probes['wallet_tx'] >= 3 and run.probes['oracle_checked_nonempty'] >= 1
    run.finish()
    return run.result()
