"""C01 — blob integrity under concurrent writers (DESIGN.md §7 C01).

SUT: real BlobFile / BlobBuffer / HashBlobWriter (lbry.blob.blob_file, lbry.blob.writer); in a tenth of
the runs the completion callback is the real BlobManager.blob_completed over a real SQLiteStorage.
Stub: nothing but the event loop / executor (SimLoop).  Real temp blob directory (tmpfs).

The driver executes an explicit list of actions (open writer / write next chunk / abort writer / run k
loop callbacks / let executor jobs finish / set_length / close / delete).  Writes are synchronous, so
the interleaving of chunk writes with the call_soon callbacks (close_handle, remove_writer,
writer_finished_callback), with the write task and with the executor completion is decided by `ops`.

Reference model kept by the harness (never the product's own view):
  * `content`, `true_hash = SHA-384(content)`, `hash_ok = blob_hash == true_hash`;
  * `declared`: the announced length = constructor value, else the first set_length within
    0..2 MiB while unknown; delete() makes it unknown again;
  * per writer the bytes actually accepted by write() calls (cursor + "still a prefix of content"),
    so "delivered a complete correct copy" is judged on the byte stream at write() boundaries.
"""
import asyncio
import hashlib
import os
import shutil
import tempfile

from simverif.core import env
from simverif.core.run import Run, SimBudget, SimIdle
from simverif.core.rng import stream, H

ID = 'C01'
LEVEL = 'exploration'
TIERS = {'quick': {'runs': 9000}, 'thorough': {'seconds': 600}}
DET_PAIRS_PER_SLOT = 3
RULE = ("one run = one blob (content of n bytes, n swarmed over 1..2 MiB incl. 1/15/16/17, MiB boundaries, "
        "2 MiB-1, 2 MiB; hash = SHA-384(content) or unrelated; declared length n / n+-1 / 0 / >2 MiB / unknown "
        "until a later set_length) on a real BlobFile (70 %), BlobBuffer (20 %) or BlobManager+SQLiteStorage "
        "(10 %), written by 1..3 (+late) writers with distinct or duplicate peer keys, each with a data plan "
        "(correct / one flipped bit / truncated / over-long / unrelated) and a chunk plan (1-byte, random, one "
        "chunk, cut at last byte, boundary on / straddling byte n); the explicit op list interleaves chunk "
        "writes, loop-callback steps, executor completion, late opens, aborts, set_length, close(), delete(). "
        "Safety invariants are checked after every loop handle and every action, liveness at quiescence in "
        "histories without close()/delete(). Sub-family `retry` (5 %): a peer whose copy just failed opens a new "
        "writer under the same key before the old one's callbacks ran, a third peer completes. 30 % of runs end with a "
        "second download epoch on the same blob object (stored copy dropped by delete() or by the consuming read of a "
        "BlobBuffer, then fetched again: must verify with exactly the bytes). Non-trivial = >=2 writers opened or >=1 bad writer wrote; "
        "distinct = distinct event-trace digest.")
COMPONENTS = {
    'real': ['lbry.blob.writer.HashBlobWriter', 'lbry.blob.blob_file.AbstractBlob/BlobFile/BlobBuffer',
             'lbry.blob.blob_manager.BlobManager.get_blob/blob_completed (manager family)',
             'lbry.extras.daemon.storage.SQLiteStorage.add_blobs/get_blob_status/get_blobs_to_announce (manager family)',
             'real files in a tmpfs blob directory'],
    'stub': ['event loop (SimLoop, virtual time)', 'default executor and sqlite executors (inline jobs at '
             'scheduler-drawn instants)'],
}
ASSUMPTIONS = [
    'asyncio ready-queue order is FIFO (never permuted); schedule diversity comes from the explicit op list and '
    'from executor completion instants',
    'no torn disk writes / crashes (C18 owns those); an executor job is atomic with respect to loop steps',
    'after a delete() the verified flag may be set by an already-running write completion although the file was '
    'just removed; the statement only constrains WHAT bytes are accepted, so with a delete() in the history '
    '"verified" requires stored bytes == content only if a stored copy exists',
    'writers opened after the first complete correct copy was delivered are not "other pending writers" of the '
    'statement; only writers opened before it must end closed',
    'liveness halves (I4/I5) are asserted only in histories without blob.close()/blob.delete()',
]
EXPECTED_PROBES = [
    'two_writers_completed_same_iteration', 'late_writer_after_verified', 'overlong_boundary_on_n',
    'overlong_straddle', 'write_after_close', 'cancel_window_write', 'invalid_state_in_cancel_window',
    'delete_between_completion_and_callback', 'set_length_late', 'set_length_ignored', 'duplicate_peer_key',
    'dup_key_refused', 'dup_key_replaced', 'unknown_length_write_refused', 'real_manager_run', 'buffer_run',
    'big_blob', 'tiny_blob', 'verified_run', 'callback_fired', 'announced_checked', 'i4_checked', 'i5_checked',
    'losers_checked', 'reader_checked', 'hash_mismatch_at_length', 'close_run', 'delete_run',
]

MAX = 2 * 2 ** 20
MIB = 2 ** 20
TINY = [1, 1, 2, 3, 15, 16, 17, 31, 32, 33, 47, 48, 63, 64]
SMALL_FIXED = [65, 255, 256, 257, 1000, 1023, 1024, 1025, 4095, 4096]
MEDIUM_FIXED = [4097, 65535, 65536, 65537, 262144]
BIG_FIXED = [MIB - 1, MIB, MIB + 1, MIB + 16, MAX - 17, MAX - 16, MAX - 1, MAX, MAX, MAX - 1]
FULL_COMPARE_LIMIT = 65536      # stored copies up to this size are re-read at every check


# ---------------------------------------------------------------------------------------------------
# generation (pure function of the run seed)
# ---------------------------------------------------------------------------------------------------

def _pick_n(r, tier):
    x = r.random()
    big = 0.045 if tier == 'quick' else 0.12
    if x < big:
        return r.choice(BIG_FIXED + [r.randrange(MIB, MAX + 1)])
    if x < big + 0.06:
        return r.choice(MEDIUM_FIXED + [r.randrange(4097, 262144)] * 3)
    if x < big + 0.06 + 0.36:
        return r.choice(TINY + [r.randrange(1, 65)] * 4)
    return r.choice(SMALL_FIXED + [r.randrange(65, 4097)] * 10)


def _plan(r, n, all_correct):
    if all_correct or r.random() < 0.42:
        return {'kind': 'correct'}
    kind = r.choices(['flip', 'trunc', 'over', 'unrelated'], [3, 3, 4, 2])[0]
    if kind == 'flip':
        return {'kind': 'flip', 'pos': r.choice([0, n - 1, r.randrange(n), r.randrange(n)]), 'bit': r.randrange(8)}
    if kind == 'trunc':
        return {'kind': 'trunc', 'at': r.choice([0, n - 1, n - 1, r.randrange(n), r.randrange(n)])}
    if kind == 'over':
        return {'kind': 'over', 'extra': r.choice([1, 1, 1, 2, 16, r.randint(1, max(1, min(n, 4096)))])}
    return {'kind': 'unrelated', 'len': r.choice([n, n, n, n + 1, max(1, n - 1), r.randint(1, min(2 * n, MAX + 8))]),
            'seed': r.getrandbits(32)}


def _plan_len(plan, n):
    k = plan['kind']
    if k in ('correct', 'flip'):
        return n
    if k == 'trunc':
        return plan['at']
    if k == 'over':
        return n + plan['extra']
    return plan['len']


def _chunking(r, total, n, mode):
    if total <= 0:
        return []
    if mode == 'one':
        return [total]
    if mode == 'ones':
        return [1] * total
    if mode == 'last_byte':
        return [total - 1, 1] if total > 1 else [1]
    k = r.choice([1, 1, 2, 3, 5, 8, 12])
    cuts = set(r.sample(range(1, total), min(k, total - 1))) if total > 1 else set()
    if mode == 'at_n' and 0 < n < total:
        cuts.add(n)
    elif mode == 'straddle':
        cuts.discard(n)
    elif mode == 'near_n':
        for c in (n - 1, n + 1):
            if 0 < c < total:
                cuts.add(c)
        cuts.discard(n)
    pts = [0] + sorted(cuts) + [total]
    return [b - a for a, b in zip(pts, pts[1:])]


def _chunk_mode(r, plan, total):
    if plan['kind'] == 'over':
        return r.choice(['at_n', 'at_n', 'straddle', 'straddle', 'near_n', 'random', 'one'])
    modes = ['one', 'random', 'random', 'random', 'last_byte']
    if 0 < total <= 40:
        modes += ['ones', 'ones']
    return r.choice(modes)


def _pause(r):
    return {'op': 'exec'} if r.random() < 0.3 else {'op': 'spin', 'k': r.choice([1, 1, 1, 2, 2, 3, 4])}


def gen(run_seed, tier):
    r = stream('C01.gen', run_seed)
    x = r.random()
    sut = 'manager' if x < 0.10 else ('buffer' if x < 0.30 else 'file')
    n = _pick_n(r, tier)
    hash_mode = 'unrelated' if r.random() < 0.06 else 'true'
    d = r.random()
    if d < 0.60:
        declared = n
    elif d < 0.79:
        declared = None
    elif d < 0.85:
        declared = n + 1
    elif d < 0.91:
        declared = n - 1                      # 0 when n == 1
    elif d < 0.93:
        declared = 0
    elif d < 0.96:
        declared = r.choice([MAX + 1, MAX + n, 2 * MAX])
    else:
        declared = r.choice([-1, max(1, n // 2), n * 2, MAX])

    total_w = r.choice([1, 2, 2, 2, 3, 3, 3])
    all_correct = r.random() < 0.22
    writers, late = [], []
    for i in range(total_w):
        plan = _plan(r, n, all_correct)
        key = ['10.0.0.%d' % (i + 1), 4000 + i]
        if i and r.random() < 0.14:
            key = list(writers[r.randrange(i)]['key'])
        writers.append({'key': key, 'plan': plan})
        late.append(bool(i) and r.random() < 0.25)
    if not any(w['plan']['kind'] == 'correct' for w in writers) and r.random() < 0.5:
        writers[r.randrange(total_w)]['plan'] = {'kind': 'correct'}

    chunks = {}
    for i, w in enumerate(writers):
        total = _plan_len(w['plan'], n)
        chunks[i] = _chunking(r, total, n, _chunk_mode(r, w['plan'], total))

    p_pause = r.choice([0.0, 0.0, 0.05, 0.25, 0.6])
    inter = r.choice(['random', 'random', 'sequential', 'sync_finish', 'sync_finish'])
    initial = [i for i in range(total_w) if not late[i]]

    # ---- body: interleaved chunk writes of the initial writers ------------------------------------
    def interleave(ids, seqs):
        seqs = {i: list(seqs[i]) for i in ids}
        out = []
        if inter == 'sequential':
            order = list(ids)
            r.shuffle(order)
            for i in order:
                out += [('write', i, s) for s in seqs[i]]
            return out
        while any(seqs.values()):
            i = r.choice([j for j in ids if seqs[j]])
            out.append(('write', i, seqs[i].pop(0)))
        return out

    tail = []
    body_seqs = {i: list(chunks[i]) for i in initial}
    if inter == 'sync_finish':
        order = [i for i in initial if body_seqs[i]]
        r.shuffle(order)
        for i in order:
            tail.append(('write', i, body_seqs[i].pop()))
    body = interleave(initial, body_seqs)

    # late writers join the interleaving from a drawn position on (or after everything)
    after_end = []
    for i in range(total_w):
        if not late[i]:
            continue
        items = [('open', i, 0)] + [('write', i, s) for s in chunks[i]]
        where = r.random()
        if where < 0.45 and body:
            start = r.randint(0, len(body))
            pos = sorted(r.randint(start, len(body)) for _ in items)
            for off, (p, it) in enumerate(zip(pos, items)):
                body.insert(p + off, it)
        elif where < 0.65:
            tail += items                      # right behind the finishing chunks, no loop step between
        else:
            after_end.append(items)

    ops = [{'op': 'open', 'w': i} for i in initial]

    def set_length_seq():
        v = r.random()
        if v < 0.80:
            return [{'op': 'set_length', 'len': n}]
        first = r.choice([n + 1, 0, MAX + 1, -1, max(0, n - 1)])
        return [{'op': 'set_length', 'len': first}] + ([{'op': 'set_length', 'len': n}] if r.random() < 0.8 else [])

    early_len = declared is None and r.random() < 0.5
    if early_len:
        ops += set_length_seq()
    for kind, i, size in body:
        ops.append({'op': kind, 'w': i} if kind == 'open' else {'op': 'write', 'w': i, 'len': size})
        if r.random() < p_pause:
            ops.append(_pause(r))
    for kind, i, size in tail:
        ops.append({'op': kind, 'w': i} if kind == 'open' else {'op': 'write', 'w': i, 'len': size})
    if declared is None and not early_len:
        # unknown until later: the writes above were refused; set the length, then write again
        at = r.randint(len(initial), len(ops))
        seq = set_length_seq()
        ops[at:at] = seq
        for i in initial:
            for s in chunks[i]:
                ops.append({'op': 'write', 'w': i, 'len': s})
                if r.random() < p_pause:
                    ops.append(_pause(r))
    elif declared is not None and r.random() < 0.25:
        # a second announcement of the length must be ignored
        val = n if declared != n else r.choice([n + 1, max(0, n - 1), 0, n // 2, MAX, n + 16])
        ops.insert(r.randint(0, len(ops)), {'op': 'set_length', 'len': val})

    # aborts (connection lost): mostly for truncated senders
    for i, w in enumerate(writers):
        p = 0.4 if w['plan']['kind'] == 'trunc' else 0.04
        if r.random() < p:
            idxs = [k for k, o in enumerate(ops) if o.get('w') == i]
            if idxs:
                ops.insert(r.randint(idxs[-1] + 1 if r.random() < 0.7 else idxs[0] + 1, len(ops)),
                           {'op': 'abort', 'w': i})

    # disruption: close()/delete(), biased right behind the completing write of a correct writer
    disrupted = r.random() < 0.24
    if disrupted:
        kind = r.choice(['close', 'delete', 'delete'])
        pos = r.randint(0, len(ops))
        if r.random() < 0.6:
            cands = []
            for i, w in enumerate(writers):
                if w['plan']['kind'] in ('correct', 'over'):
                    idxs = [k for k, o in enumerate(ops) if o.get('op') == 'write' and o.get('w') == i]
                    if idxs:
                        cands.append(idxs[-1] + 1)
            if cands:
                pos = r.choice(cands)
        seq = []
        if r.random() < 0.6:
            seq.append({'op': 'spin', 'k': r.choice([1, 1, 2, 2, 3, 4, 5, 6])})
        seq.append({'op': kind})
        if r.random() < 0.3:
            seq.append({'op': r.choice(['close', 'delete'])})
        ops[pos:pos] = seq
        if r.random() < 0.6:
            # download again afterwards
            i = len(writers)
            writers.append({'key': ['10.0.0.%d' % (i + 1), 4000 + i] if r.random() < 0.7 else list(writers[0]['key']),
                            'plan': {'kind': 'correct'}})
            chunks[i] = _chunking(r, n, n, r.choice(['one', 'random', 'last_byte']))
            again = [_pause(r)] if r.random() < 0.5 else []
            if kind == 'delete' and r.random() < 0.85:
                again.append({'op': 'set_length', 'len': n})
            again.append({'op': 'open', 'w': i})
            for s in chunks[i]:
                again.append({'op': 'write', 'w': i, 'len': s})
                if r.random() < p_pause:
                    again.append(_pause(r))
            at = r.randint(pos + len(seq), len(ops))
            ops[at:at] = again

    for items in after_end:
        if r.random() < 0.75:
            ops.append({'op': 'exec'})
        for kind, i, size in items:
            ops.append({'op': kind, 'w': i} if kind == 'open' else {'op': 'write', 'w': i, 'len': size})
            if r.random() < p_pause:
                ops.append(_pause(r))

    # the same peer connects again right behind the end of its previous attempt (no loop step between):
    # the done-callbacks of the old writer are still queued when the new one registers under the same key
    for i, w in enumerate(writers):
        js = [j for j in range(i) if writers[j]['key'] == w['key']]
        if not js or r.random() >= 0.55:
            continue
        oi = next((k for k, o in enumerate(ops) if o.get('op') == 'open' and o.get('w') == i), None)
        if oi is None:
            continue
        op = ops.pop(oi)
        ends = [k for k, o in enumerate(ops) if o.get('w') == js[-1] and o.get('op') in ('write', 'abort')]
        if not ends:
            ops.insert(oi, op)
            continue
        ops.insert(ends[-1] + 1, op)
        if r.random() < 0.7:
            # its own chunks follow later (earlier write ops of a not yet opened writer are skipped)
            for s_ in chunks.get(i, []):
                ops.insert(r.randint(ends[-1] + 2, len(ops)), {'op': 'write', 'w': i, 'len': s_})

    fam = sut + ('-cd' if disrupted else '')
    sc = {'family': fam, 'sut': sut, 'mgr_buffer': sut == 'manager' and r.random() < 0.2,
          'n': n, 'content_seed': r.getrandbits(48), 'hash_mode': hash_mode, 'declared': declared,
          'exec_delay': r.choice([[0.0, 0.0], [0.0, 0.002], [0.0, 0.002], [0.001, 0.001]]),
          'writers': writers, 'ops': ops}
    # a peer whose copy just failed retries at once: its new writer is registered under the same key before the
    # done-callbacks of the old one have run, and is still pending when another peer completes the blob
    r3 = stream('C01.gen.retry', run_seed)
    if r3.random() < 0.05 and sut != 'manager':
        bad = r3.choice([{'kind': 'flip', 'pos': r3.randrange(n), 'bit': r3.randrange(8)},
                         {'kind': 'over', 'extra': r3.choice([1, 2, 16])},
                         {'kind': 'unrelated', 'len': n, 'seed': r3.getrandbits(32)}])
        key = ['10.0.0.1', 4000]
        sc['writers'] = [{'key': key, 'plan': bad}, {'key': list(key), 'plan': {'kind': 'correct'}},
                         {'key': ['10.0.0.3', 4002], 'plan': {'kind': 'correct'}}]
        sc['declared'] = n
        sc['hash_mode'] = 'true'
        how_ends = r3.choice(['data', 'data', 'abort']) if n > 1 else 'data'
        total = _plan_len(bad, n)
        ops = [{'op': 'open', 'w': 0}]
        if how_ends == 'data':
            ops += [{'op': 'write', 'w': 0, 'len': c} for c in _chunking(r3, total, n, r3.choice(['one', 'random']))]
        else:
            ops += [{'op': 'write', 'w': 0, 'len': max(1, n // 2)}, {'op': 'abort', 'w': 0}]
        if r3.random() < 0.25:
            ops.append({'op': 'spin', 'k': 1})
        ops.append({'op': 'open', 'w': 1})
        part = r3.choice([0, 1, n // 2, n - 1])
        if part > 0:
            ops.append({'op': 'write', 'w': 1, 'len': part})
        ops.append(_pause(r3))
        ops.append({'op': 'open', 'w': 2})
        ops += [{'op': 'write', 'w': 2, 'len': c} for c in _chunking(r3, n, n, r3.choice(['one', 'random']))]
        ops += [{'op': 'spin', 'k': 3}, {'op': 'exec'}, {'op': 'spin', 'k': 2}]
        sc['ops'] = ops
        sc['family'] = sut + '-retry'
    # second download epoch on the same blob object: the stored copy is dropped through the API (delete(), or the
    # consuming read of a BlobBuffer) and the blob is downloaded again (own stream: earlier histories unchanged)
    r2 = stream('C01.gen.epoch2', run_seed)
    if r2.random() < 0.3:
        sc['epoch2'] = {'drop': r2.choice(['delete', 'delete', 'read']), 'chunks': r2.choice([1, 2, 3]),
                        'writers': r2.choice([1, 1, 2]), 'set_length': r2.random() < 0.8}
    return sc


def shrink(sc):
    if sc.get('sut') == 'manager':
        yield dict(sc, sut='file', mgr_buffer=False)
    if sc.get('exec_delay') != [0.0, 0.002]:
        yield dict(sc, exec_delay=[0.0, 0.002])
    ops = sc['ops']
    for i, op in enumerate(ops):
        if op.get('op') == 'spin' and op.get('k', 1) > 1:
            new = list(ops)
            new[i] = dict(op, k=op['k'] - 1)
            yield dict(sc, ops=new)
    # merge two consecutive writes of the same writer into one chunk
    for i in range(len(ops) - 1):
        a, b = ops[i], ops[i + 1]
        if a.get('op') == 'write' and b.get('op') == 'write' and a.get('w') == b.get('w'):
            new = list(ops)
            new[i:i + 2] = [dict(a, len=a.get('len', 0) + b.get('len', 0))]
            yield dict(sc, ops=new)
    # a bad writer that is not needed becomes a correct one
    for i, w in enumerate(sc.get('writers', [])):
        if w['plan']['kind'] != 'correct':
            ws = list(sc['writers'])
            ws[i] = dict(w, plan={'kind': 'correct'})
            yield dict(sc, writers=ws)


# ---------------------------------------------------------------------------------------------------
# execution
# ---------------------------------------------------------------------------------------------------

def _content(seed, n):
    import random
    return random.Random(H('C01.content', seed)).randbytes(n)


def _writer_data(plan, content, n):
    import random
    k = plan.get('kind', 'correct')
    if k == 'correct':
        return content
    if k == 'flip':
        pos = min(max(int(plan.get('pos', 0)), 0), n - 1)
        b = bytearray(content)
        b[pos] ^= 1 << (int(plan.get('bit', 0)) % 8)
        return bytes(b)
    if k == 'trunc':
        return content[:min(max(int(plan.get('at', 0)), 0), n)]
    if k == 'over':
        extra = max(1, int(plan.get('extra', 1)))
        return content + random.Random(H('C01.extra', n, extra)).randbytes(extra)
    ln = min(max(int(plan.get('len', n)), 1), MAX + 64)
    return random.Random(H('C01.unrelated', plan.get('seed', 0))).randbytes(ln)


class _W:
    __slots__ = ('i', 'key', 'plan', 'data', 'obj', 'pos', 'prefix_ok', 'dead', 'open_seq', 'wrote', 'delivered')

    def __init__(self, i, key, plan, data):
        self.i, self.key, self.plan, self.data = i, key, plan, data
        self.obj = None
        self.pos = 0
        self.prefix_ok = True
        self.dead = False
        self.open_seq = -1
        self.wrote = False
        self.delivered = False


def execute(scenario, keep_trace=False):
    env.import_lbry()
    import lbry.wallet.database as wdb
    from simverif.core.loop import _InertExecutor
    wdb.ThreadPoolExecutor = _InertExecutor
    wdb.ReaderExecutorClass = _InertExecutor
    from lbry.blob.blob_file import BlobFile, BlobBuffer

    run = Run(scenario, keep_trace)
    ed = scenario.get('exec_delay') or [0.0, 0.002]
    loop = run.new_loop(max_steps=300_000, max_vtime=3600.0, exec_delay=(float(ed[0]), float(ed[1])))
    tmp = tempfile.mkdtemp(prefix='c01-')
    blob_dir = os.path.join(tmp, 'blobs')
    os.mkdir(blob_dir)

    n = max(1, min(int(scenario['n']), MAX))
    content = _content(scenario.get('content_seed', 0), n)
    true_hash = hashlib.sha384(content).hexdigest()
    if scenario.get('hash_mode', 'true') == 'true':
        blob_hash = true_hash
    else:
        blob_hash = hashlib.sha384(b'unrelated:' + content[:64] + str(scenario.get('content_seed', 0)).encode()).hexdigest()
        run.faults['hash_unrelated'] += 1
    hash_ok = blob_hash == true_hash
    sut = scenario.get('sut', 'file')
    is_buffer = sut == 'buffer' or (sut == 'manager' and bool(scenario.get('mgr_buffer')))
    path = os.path.join(blob_dir, blob_hash)
    if n >= MIB:
        run.probes['big_blob'] += 1
    if n <= 64:
        run.probes['tiny_blob'] += 1
    if is_buffer:
        run.probes['buffer_run'] += 1
    if sut == 'manager':
        run.probes['real_manager_run'] += 1
    wdefs = scenario.get('writers') or []

    # ---- reference model -------------------------------------------------------------------------
    m = {
        'declared': scenario.get('declared'), 'closes': 0, 'deletes': 0, 'lenient': 0, 'strict': None,
        'strict_ticks': {}, 'tick': 0, 'seq': 0, 'callbacks': [], 'callbacks_ok': 0, 'blob': None,
        'manager': None, 'storage': None, 'cache': (None, None), 'hook_on': False, 'opened': 0,
        'bad_wrote': 0, 'announce_seen': False,
    }
    if m['declared'] != n:
        run.faults['declared_not_n'] += 1
    W = {}

    def stored_state():
        """'absent' | 'ok' | 'length' | 'content' for the stored copy (file, or buffered bytes)."""
        if is_buffer:
            blob = m['blob']
            vb = blob._verified_bytes if blob is not None else None
            if vb is None or vb.closed:
                return 'absent'
            mv = vb.getbuffer()               # no copy; must be released or the BytesIO cannot be closed
            try:
                return 'ok' if mv == content else ('length' if len(mv) != n else 'content')
            finally:
                mv.release()
        try:
            st = os.stat(path)
        except FileNotFoundError:
            return 'absent'
        sig = (st.st_ino, st.st_size, st.st_mtime_ns)
        if n > FULL_COMPARE_LIMIT and m['cache'][0] == sig:
            return m['cache'][1]
        with open(path, 'rb') as f:
            data = f.read()
        val = 'ok' if data == content else ('length' if len(data) != n else 'content')
        m['cache'] = (sig, val)
        return val

    def safety(where):
        """I1, I2 and the safety half of I5; called after every loop handle and every action."""
        if run.violations:
            return True
        blob = m['blob']
        names = os.listdir(blob_dir)
        for name in names:
            if name != blob_hash or is_buffer:
                run.violation('C01.file_wrong_bytes', f'{where}: unexpected file {name[:16]}.. in the blob directory',
                              what='unexpected_file', sut=sut)
                return True
        state = stored_state()
        verified = blob.get_is_verified() or blob.is_readable()
        if verified:
            if state == 'absent':
                if m['deletes'] == 0:
                    run.violation('C01.verified_wrong_bytes', f'{where}: blob is verified/readable but no stored copy '
                                  f'exists (n={n})', what='missing', sut=sut)
                    return True
                run.probes['verified_without_store_after_delete'] += 1
            elif state != 'ok':
                run.violation('C01.verified_wrong_bytes', f'{where}: blob is verified but the stored bytes differ from '
                              f'the content ({state}; n={n})', what=state, sut=sut)
                return True
            elif not hash_ok:
                run.violation('C01.verified_wrong_bytes', f'{where}: verified although SHA-384(stored) != blob hash',
                              what='hash', sut=sut)
                return True
            if m['lenient'] == 0:
                run.violation('C01.verified_without_copy', f'{where}: blob verified although no writer delivered exactly '
                              f'the content under a declared length of n={n} (declared={m["declared"]}, '
                              f'product length={blob.length})', what='verified', sut=sut)
                return True
        elif state != 'absent':
            if state != 'ok' or not hash_ok:
                run.violation('C01.file_wrong_bytes', f'{where}: stored copy named by the hash differs from the '
                              f'content ({state if state != "ok" else "hash"}; n={n})',
                              what=state if state != 'ok' else 'hash', sut=sut)
                return True
            if m['lenient'] == 0:
                run.violation('C01.verified_without_copy', f'{where}: a stored copy exists although no writer delivered '
                              f'a complete correct copy (declared={m["declared"]})', what='stored', sut=sut)
                return True
        return False

    def i1_now():
        blob = m['blob']
        if not blob.get_is_verified() or not hash_ok:
            return False
        state = stored_state()
        return state == 'ok' or (state == 'absent' and m['deletes'] > 0)

    def on_completed(blob):
        ok = i1_now()
        m['callbacks'].append(ok)
        run.probes['callback_fired'] += 1
        run.ev('callback', ok, len(m['callbacks']), blob.get_is_verified())
        if not ok:
            run.violation('C01.callback_unverified', f'completion callback fired while verified={blob.get_is_verified()} '
                          f'stored={stored_state()} hash_ok={hash_ok}', sut=sut)
        else:
            m['callbacks_ok'] += 1
        if len(m['callbacks']) > 1 + m['deletes']:
            run.violation('C01.callback_twice', f'{len(m["callbacks"])} completion callbacks for '
                          f'{1 + m["deletes"]} possible verifications', sut=sut)
        if m['manager'] is not None:
            try:
                return m['manager'].blob_completed(blob)
            except Exception as e:  # noqa  (e.g. "Blob has a length of 0" after a delete())
                run.probes['manager_callback_raised'] += 1
                run.ev('manager_callback_raised', type(e).__name__)
        return None

    def announced_check(where):
        mgr = m['manager']
        if mgr is None or run.violations:
            return
        if blob_hash in mgr.completed_blob_hashes:
            run.probes['announced_checked'] += 1
            if not m['announce_seen']:
                m['announce_seen'] = True
                run.ev('announced', where)
            if m['callbacks_ok'] == 0 or (m['deletes'] == 0 and not i1_now()):
                run.violation('C01.announced_wrong', f'{where}: hash in completed_blob_hashes but verified='
                              f'{m["blob"].get_is_verified()} stored={stored_state()} callbacks_ok={m["callbacks_ok"]}',
                              what='completed_blob_hashes', sut=sut)

    def exc_violation(call, e, why=''):
        run.violation('C01.exception', f'{call} raised {type(e).__name__}: {e} {why}', call=call,
                      exc=type(e).__name__)

    # ---- actions ---------------------------------------------------------------------------------------
    def do_open(i):
        blob = m['blob']
        if not (0 <= i < len(wdefs)) or i in W:
            return run.ev('open', i, 'skip')
        d = wdefs[i]
        key = (str(d['key'][0]), int(d['key'][1]))
        same = [w for w in W.values() if w.key == key]
        live_same = [w for w in same if w.obj is not None and not w.obj.closed()]
        registered_same = [w for w in live_same if not w.obj.finished.done()]
        verified = blob.get_is_verified()
        if same:
            run.probes['duplicate_peer_key'] += 1
        if verified:
            run.probes['late_writer_after_verified'] += 1
        elif m['strict'] is not None:
            run.probes['late_writer_after_copy_before_verified'] += 1
        file_there = (not is_buffer) and os.path.isfile(path)
        try:
            obj = blob.get_blob_writer(key[0], key[1])
        except OSError as e:
            if live_same:
                run.probes['dup_key_refused'] += 1
            elif file_there:
                run.probes['open_refused_file_exists'] += 1
            else:
                exc_violation('get_blob_writer', e, '(no live writer under that peer key, no file)')
            return run.ev('open', i, 'OSError')
        except Exception as e:  # noqa
            exc_violation('get_blob_writer', e)
            return run.ev('open', i, type(e).__name__)
        if registered_same:
            run.probes['dup_key_accepted_while_pending'] += 1     # possible after a stale remove_writer
        if same:
            run.probes['dup_key_replaced'] += 1
        w = _W(i, key, d.get('plan') or {'kind': 'correct'}, _writer_data(d.get('plan') or {}, content, n))
        w.obj = obj
        w.open_seq = m['seq']
        W[i] = w
        m['opened'] += 1
        run.ev('open', i, 'ok')

    def do_write(i, ln):
        w = W.get(i)
        if w is None or w.dead or w.obj is None:
            return run.ev('write', i, 'skip')
        chunk = w.data[w.pos:w.pos + max(0, int(ln))]
        if not chunk:
            return run.ev('write', i, 'skip-empty')
        pre_closed = w.obj.closed()
        pre_done = w.obj.finished.done()
        declared = m['declared']
        if not w.wrote:
            w.wrote = True
            kind = w.plan.get('kind', 'correct')
            if kind != 'correct':
                run.faults['writer_' + kind] += 1
                m['bad_wrote'] += 1
        if pre_done and not pre_closed:
            run.probes['cancel_window_write'] += 1
        try:
            w.obj.write(chunk)
        except OSError as e:
            if pre_closed:
                run.probes['write_after_close'] += 1
                w.dead = True
                return run.ev('write', i, len(chunk), 'OSError-closed')
            if not declared:
                run.probes['unknown_length_write_refused'] += 1
                return run.ev('write', i, len(chunk), 'OSError-unknown-length')
            w.dead = True
            exc_violation('write', e, f'(writer open, declared length {declared})')
            return run.ev('write', i, len(chunk), 'OSError-unexplained')
        except asyncio.InvalidStateError as e:
            w.dead = True
            if pre_done:
                run.probes['invalid_state_in_cancel_window'] += 1
                return run.ev('write', i, len(chunk), 'InvalidStateError')
            exc_violation('write', e, '(finished future was pending before the call)')
            return run.ev('write', i, len(chunk), 'InvalidStateError-unexplained')
        except Exception as e:  # noqa
            w.dead = True
            exc_violation('write', e)
            return run.ev('write', i, len(chunk), type(e).__name__)
        if pre_closed:
            w.dead = True
            run.probes['write_swallowed_closed'] += 1
            return run.ev('write', i, len(chunk), 'swallowed')
        start = w.pos
        w.pos += len(chunk)
        if w.prefix_ok and not (w.pos <= n and content[start:w.pos] == chunk):
            w.prefix_ok = False
        if w.plan.get('kind') == 'over' and start < n < w.pos and not pre_done:
            run.probes['overlong_straddle'] += 1
        if isinstance(declared, int) and declared > 0 and w.pos == declared and not (w.prefix_ok and w.pos == n
                                                                                    and hash_ok):
            run.probes['hash_mismatch_at_length'] += 1
        outcome = 'ok'
        if w.prefix_ok and w.pos == n and declared == n and hash_ok and not w.delivered:
            w.delivered = True
            m['lenient'] += 1
            outcome = 'copy-lenient'
            if not pre_done:
                outcome = 'copy'
                if w.plan.get('kind') == 'over':
                    run.probes['overlong_boundary_on_n'] += 1
                if m['strict'] is None:
                    m['strict'] = {'w': i, 'seq': m['seq'], 'tick': m['tick']}
                if m['strict_ticks'].get(m['tick'], i) != i:
                    run.probes['two_writers_completed_same_iteration'] += 1
                m['strict_ticks'].setdefault(m['tick'], i)
        run.ev('write', i, len(chunk), outcome, w.pos)

    def do_abort(i):
        w = W.get(i)
        if w is None or w.obj is None:
            return run.ev('abort', i, 'skip')
        was = w.obj.closed()
        try:
            w.obj.close_handle()
        except Exception as e:  # noqa
            exc_violation('close_handle', e)
        if not was:
            run.faults['writer_aborted'] += 1
        run.ev('abort', i, was)

    def do_set_length(ln):
        blob = m['blob']
        before = m['declared']
        try:
            blob.set_length(ln)
        except Exception as e:  # noqa
            exc_violation('set_length', e)
        if before is None and isinstance(ln, int) and 0 <= ln <= MAX:
            m['declared'] = ln
            if m['opened'] and ln == n:
                run.probes['set_length_late'] += 1
        else:
            run.probes['set_length_ignored'] += 1
        run.ev('set_length', ln, m['declared'])

    def do_close():
        blob = m['blob']
        m['closes'] += 1
        run.faults['blob_close'] += 1
        if m['closes'] + m['deletes'] == 1:
            run.probes['close_run'] += 1
        try:
            blob.close()
        except Exception as e:  # noqa
            exc_violation('close', e)
        run.ev('close')

    def do_delete():
        blob = m['blob']
        if m['lenient'] and not blob.get_is_verified() and not m['callbacks']:
            run.probes['delete_between_completion_and_callback'] += 1
        if m['closes'] + m['deletes'] == 0:
            run.probes['delete_run'] += 1
        m['deletes'] += 1
        run.faults['blob_delete'] += 1
        try:
            blob.delete()
        except Exception as e:  # noqa
            exc_violation('delete', e)
        m['declared'] = None
        run.ev('delete')

    async def pause(dt):
        m['tick'] += 1
        await asyncio.sleep(dt)

    # ---- driver ------------------------------------------------------------------------------------------
    async def driver():
        if sut == 'manager':
            from lbry.conf import Config
            from lbry.extras.daemon.storage import SQLiteStorage
            from lbry.blob.blob_manager import BlobManager
            conf = Config(data_dir=tmp, wallet_dir=tmp, download_dir=tmp, save_blobs=not is_buffer)
            conf.announce_head_and_sd_only = False
            storage = SQLiteStorage(conf, ':memory:', loop)
            await storage.open()
            mgr = BlobManager(loop, blob_dir, storage, conf)
            m['storage'], m['manager'] = storage, mgr
            blob = mgr.get_blob(blob_hash, m['declared'])
            blob.blob_completed_callback = on_completed      # records, then calls the real blob_completed
        else:
            cls = BlobBuffer if is_buffer else BlobFile
            blob = cls(loop, blob_hash, m['declared'], on_completed, blob_dir)
        assert isinstance(blob, BlobBuffer if is_buffer else BlobFile)
        m['blob'] = blob
        loop.after_handle = lambda lp: m['hook_on'] and safety('between loop handles')
        m['hook_on'] = True
        try:
            await body(blob)
        finally:
            m['hook_on'] = False
            loop.after_handle = None
            # leave nothing open for the garbage collector (after all checks)
            for w in W.values():
                if w.obj is not None:
                    try:
                        w.obj.close_handle()
                    except Exception:  # noqa
                        pass
            try:
                blob.close()
            except Exception:  # noqa
                pass
            await asyncio.sleep(0)
            if m['storage'] is not None:
                try:
                    await m['storage'].close()
                except Exception:  # noqa
                    pass

    async def body(blob):
        for idx, op in enumerate(scenario.get('ops') or []):
            if not isinstance(op, dict):
                continue
            kind = op.get('op')
            m['seq'] = idx
            if kind == 'open':
                do_open(int(op.get('w', -1)))
            elif kind == 'write':
                do_write(int(op.get('w', -1)), op.get('len', 0))
            elif kind == 'abort':
                do_abort(int(op.get('w', -1)))
            elif kind == 'set_length':
                do_set_length(op.get('len'))
            elif kind == 'close':
                do_close()
            elif kind == 'delete':
                do_delete()
            elif kind == 'spin':
                for _ in range(max(1, min(int(op.get('k', 1)), 64))):
                    await pause(0)
                    if run.violations:
                        return
                run.ev('spin', op.get('k', 1))
            elif kind == 'exec':
                await pause(0.005)
                run.ev('exec')
            else:
                continue
            if safety(f'after op {idx} ({kind})'):
                return
            announced_check(f'after op {idx} ({kind})')
            if run.violations:
                return
            run.ev('state', blob.get_is_verified(), stored_state())
            if kind == 'spin' and m['closes'] + m['deletes'] == 0:
                reg = list(blob.writers.values())
                for w in W.values():
                    if not w.obj.closed() and not w.obj.finished.done() and not any(o is w.obj for o in reg):
                        run.probes['pending_writer_evicted_from_map'] += 1

        # ---- quiescence: nothing of the SUT left in the ready queue or the timer heap ---------------
        for k in range(200):
            await pause(0.01)
            if run.violations:
                return
            if k >= 2 and not loop._scheduled and not loop._ready:
                break
        else:
            run.notes.append('not quiescent after 2 virtual seconds')
        if safety('at quiescence'):
            return
        announced_check('at quiescence')
        if run.violations:
            return
        verified = blob.get_is_verified()
        state = stored_state()
        run.ev('final', verified, state, len(m['callbacks']), m['lenient'],
               sorted((i, w.obj.closed(), w.obj.finished.done()) for i, w in W.items()))
        if verified:
            run.probes['verified_run'] += 1
        disrupted = m['closes'] + m['deletes'] > 0
        if not disrupted:
            strict = m['strict']
            if strict is not None:
                run.probes['i4_checked'] += 1
                if not verified or state != 'ok':
                    run.violation('C01.not_verified_after_correct_copy',
                                  f'writer {strict["w"]} delivered exactly the content (n={n}, declared={m["declared"]}) '
                                  f'at op {strict["seq"]} but at quiescence verified={verified} stored={state}',
                                  what='not_verified' if not verified else 'stored_' + state, sut=sut)
                    return
                if len(m['callbacks']) > 1:
                    run.violation('C01.callback_twice', f'{len(m["callbacks"])} completion callbacks for one '
                                  f'verification', sut=sut)
                    return
                for i, w in sorted(W.items()):
                    if i == strict['w'] or w.open_seq >= strict['seq']:
                        if w.open_seq >= strict['seq'] and not w.obj.closed():
                            run.probes['late_writer_left_open'] += 1
                        continue
                    run.probes['losers_checked'] += 1
                    if not w.obj.closed() or not w.obj.finished.done():
                        # site: did this writer register under a peer key an earlier writer had used?  (a stale
                        # remove_writer callback of the earlier one can evict it from blob.writers)
                        reused = any(x.key == w.key and x.open_seq < w.open_seq for x in W.values())
                        run.violation('C01.loser_not_closed',
                                      f'writer {i} (peer {w.key}, opened at op {w.open_seq}, {w.pos} bytes written) is '
                                      f'still open (closed={w.obj.closed()}, finished.done={w.obj.finished.done()}, '
                                      f'in blob.writers={any(o is w.obj for o in blob.writers.values())}) '
                                      f'after writer {strict["w"]} delivered a complete correct copy at op '
                                      f'{strict["seq"]} and the blob became verified'
                                      f'{"; its peer key had been used by an earlier writer" if reused else ""}',
                                      what='open' if not w.obj.closed() else 'future_pending', peer_key_reused=reused)
                        return
            else:
                run.probes['i5_checked'] += 1
                if verified or state != 'absent' or m['callbacks']:
                    run.violation('C01.verified_without_copy',
                                  f'no writer delivered a complete correct copy, yet verified={verified} stored={state} '
                                  f'callbacks={len(m["callbacks"])}', what='quiescence', sut=sut)
                    return
        # ---- announced (real manager): database status ------------------------------------------------
        if m['storage'] is not None:
            try:
                status = await m['storage'].get_blob_status(blob_hash)
                to_announce = await m['storage'].get_blobs_to_announce()
            except Exception as e:  # noqa
                exc_violation('storage', e)
                return
            m['tick'] += 1
            in_set = blob_hash in m['manager'].completed_blob_hashes
            run.ev('db', status, blob_hash in to_announce, in_set)
            finished = status == 'finished' or blob_hash in to_announce
            if finished:
                run.probes['db_finished'] += 1
            if (finished or in_set) and (m['callbacks_ok'] == 0 or is_buffer or
                                         (m['deletes'] == 0 and not i1_now())):
                run.violation('C01.announced_wrong', f'status={status} to_announce={blob_hash in to_announce} '
                              f'in completed_blob_hashes={in_set} but verified={blob.get_is_verified()} '
                              f'stored={stored_state()} callbacks_ok={m["callbacks_ok"]} buffer={is_buffer}',
                              what='db_status', sut=sut)
                return
            if not disrupted and m['strict'] is not None and not is_buffer and finished and in_set:
                run.probes['announced_after_verified'] += 1
        # ---- readable: the product's own reader returns the content (consumes a BlobBuffer: last) -------
        if blob.is_readable() and m['deletes'] == 0:
            m['hook_on'] = False
            run.probes['reader_checked'] += 1
            try:
                with blob.reader_context() as reader:
                    data = reader.read()
            except Exception as e:  # noqa
                exc_violation('reader_context', e)
                return
            if data != content:
                run.violation('C01.verified_wrong_bytes', 'reader_context() returned bytes that differ from the content',
                              what='reader', sut=sut)
                return
        await epoch2(blob)

    async def settle():
        for k in range(200):
            await pause(0.01)
            if k >= 2 and not loop._scheduled and not loop._ready:
                return

    async def epoch2(blob):
        """Statement, second half, on a blob object with a past: once the stored copy is gone, a writer that
        delivers a complete correct copy makes the blob verified again with exactly those bytes stored."""
        e2 = scenario.get('epoch2')
        if not e2 or run.violations or not hash_ok or not 0 < n <= MAX:
            return
        m['hook_on'] = False
        had_copy = blob.get_is_verified()
        m['deletes'] += 1           # one more verification (and completion callback) is legitimate from here on
        try:
            if not (is_buffer and e2.get('drop') == 'read' and not blob.get_is_verified() and m['deletes'] == 1):
                blob.delete()       # (a BlobBuffer whose copy was just consumed by the reader check needs no delete)
            else:
                run.probes['epoch2_after_buffer_read'] += 1
            await settle()
            if blob.get_is_verified():
                return              # outside the clause (nothing was dropped)
            if e2.get('set_length', True) or blob.get_length() is None:
                blob.set_length(n)
            if blob.get_length() != n:
                run.probes['epoch2_length_stuck'] += 1
                return
            ws = [blob.get_blob_writer('10.9.9.%d' % (k + 1), 4900 + k) for k in range(int(e2.get('writers', 1)))]
            parts = max(1, min(int(e2.get('chunks', 1)), n))
            step = -(-n // parts)
            for off in range(0, n, step):
                ws[0].write(content[off:off + step])
                await pause(0)
            await settle()
        except Exception as e:  # noqa
            exc_violation('second download epoch', e)
            return
        run.probes['epoch2_checked'] += 1
        if had_copy:
            run.probes['epoch2_after_verified_copy'] += 1
        verified = blob.get_is_verified()
        stored = None
        if verified:
            if is_buffer:
                with blob.reader_context() as reader:
                    stored = reader.read()
            else:
                with open(os.path.join(blob_dir, blob_hash), 'rb') as f:
                    stored = f.read()
        run.ev('epoch2', verified, stored == content, [w.closed() for w in ws])
        if not verified or stored != content:
            run.violation('C01.not_verified_after_correct_copy',
                          f'second download of the same blob object (stored copy dropped by '
                          f'{"the consuming read" if is_buffer and e2.get("drop") == "read" else "delete()"}; first epoch '
                          f'{"had" if had_copy else "had not"} verified): a writer delivered exactly the content (n={n}) but '
                          f'at quiescence verified={verified} stored_equal={stored == content}',
                          what='second_epoch', sut=sut)
            return
        for k, w in enumerate(ws[1:], 1):
            if not w.closed():
                run.violation('C01.loser_not_closed', f'second download epoch: writer {k} is still open after writer 0 '
                              f'delivered a complete correct copy and the blob became verified', what='open',
                              peer_key_reused=False)
                return

    try:
        try:
            run.drive(driver())
        except (SimBudget, SimIdle):
            pass
        run.nontrivial = m['opened'] >= 2 or m['bad_wrote'] >= 1
        W.clear()
        m['blob'] = m['manager'] = m['storage'] = None
        run.finish()
        return run.result()
    finally:
        shutil.rmtree(tmp, ignore_errors=True)
