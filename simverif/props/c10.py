"""C10 — blob exchange: honest transfer completes under any stream fragmentation, lying peers never
poison, connections end within the configured timeouts (DESIGN.md §7 C10).

SUT: real BlobServer / BlobServerProtocol (+ BlobFile.sendfile through loop.sendfile's fallback),
BlobExchangeClientProtocol, request_blob, BlobDownloader.download_blob, BlobManager, SQLiteStorage.
Stub: TCP (SimStreamNet: ordered reliable byte streams re-chunked by the scheduler), the `socket`
probe in BlobServer.start_server, DHT (peers are put on the downloader's queue directly).
Hostile peers are scripted harness protocols attached to the same transports.
"""
import asyncio
import hashlib
import json
import os

from simverif.core import env
from simverif.core.run import Run, SimBudget, SimIdle
from simverif.core.rng import stream

ID = 'C10'
LEVEL = 'exploration'
TIERS = {'quick': {'runs': 3000}, 'thorough': {'seconds': 900}}
DET_PAIRS_PER_SLOT = 2
RULE = ("one run = one session set between blob-exchange peers on simulated TCP. family `honest`: real server "
        "holding 1..4 verified blobs (1 byte .. 2 MiB; random, all-'}' or JSON-looking bytes), 1..3 real clients "
        "each requesting 1..5 blobs sequentially on one connection (request_blob or BlobDownloader), both "
        "directions re-chunked by the scheduler (1-byte fragments, header alone, header glued to body, cuts at "
        "structural bytes), latencies below the timeouts. family `hostile_server`: real client against a scripted "
        "server applying one misbehaviour of a 28-entry catalogue at a seeded message position, then an honest "
        "transfer. family `hostile_client`: real server against a scripted client (15-entry catalogue) while honest "
        "clients are served concurrently and afterwards. family `race` (9 %): ONE client fetches ONE blob from an honest "
        "server and from a second peer at once over two connections - the second peer honest too (neck and neck), a "
        "liar that speaks once the honest header is in, or (`pin` mode) a liar that speaks first with a wrong length "
        "and is dropped while the honest writer is open, judged by a follow-up honest request. Whenever a blob is "
        "verified its length must be an int equal to the bytes on disk. family `serving` (5 %): a node downloads a blob with "
        "BlobDownloader while a reader's request for the same blob is placed at its own server 0..8 loop iterations after "
        "the blob became verified; what it announces it must deliver. family `dropper` (3 %): BlobDownloader with a peer that "
        "drops every connection and an honest peer that failed once; the blob must arrive once the ban has run out. A wire monitor parses everything real servers write. "
        "Non-trivial = at least one transfer attempted over a re-chunked stream or one misbehaviour fired; "
        "distinct = distinct event-trace digest.")
COMPONENTS = {
    'real': ['lbry.blob_exchange.server.BlobServer/BlobServerProtocol', 'lbry.blob_exchange.client.BlobExchangeClientProtocol/request_blob',
             'lbry.blob_exchange.downloader.BlobDownloader', 'lbry.blob_exchange.serialization', 'lbry.blob.blob_manager.BlobManager',
             'lbry.blob.blob_file.BlobFile (writers, sendfile)', 'lbry.extras.daemon.storage.SQLiteStorage', 'asyncio loop.sendfile fallback'],
    'stub': ['TCP (SimStreamNet: reliable ordered streams, seeded chunking/latency/stalls/resets)', 'socket probe in start_server',
             'DHT peer discovery (queue filled by the harness)', 'scripted hostile peers (harness)', 'event loop / executors (SimLoop)'],
}
ASSUMPTIONS = [
    'TCP semantics: ordered, no loss, no duplication; a chunk is at most 256 KiB (asyncio read size)',
    'honest family keeps one-way latency and stalls below the configured timeouts',
    'a blob whose leading bytes themselves parse as a response object is generated only in the labelled family `jsonlike`',
    'hostile client: the server must INITIATE the close within idle_timeout + transfer_timeout; completion of the close is not required (a peer that never reads can keep any transport from draining)',
    'request_blob may end by returning or by raising CancelledError (what it does when the remote end drops the connection mid-body)',
]
EXPECTED_PROBES = ['honest_transfer_ok', 'one_byte_fragments', 'header_alone', 'header_glued', 'reused_connection', 'multi_client',
                   'downloader_path', 'big_blob', 'tiny_blob', 'brace_blob', 'wire_headers_checked', 'wire_bodies_checked',
                   'hostile_server_fired', 'hostile_client_fired', 'liar_sent_right_bytes_verified', 'followup_honest_ok',
                   'server_closed_hostile', 'closed_by_idle_timeout', 'closed_immediately', 'request_ended_cancelled',
                   'unknown_length_request', 'client_data_received_escape', 'server_data_received_escape', 'recovered_after_net_fault',
                   'honest_transfer_longer_than_idle_timeout', 'race_checked', 'race_two_honest',
                   'race_liar_during_honest_body', 'race_pin', 'race_pin_followup',
                   'serving_checked', 'serving_header_announced_blob', 'dropper_checked']

MAX = 2 * 1024 * 1024
SERVER_CATALOGUE = ['wrong_hash', 'length_short', 'length_long', 'length_zero', 'length_negative', 'length_huge', 'length_string',
                    'length_float',
                    'corrupt_byte', 'short_then_silence', 'excess_bytes', 'unsolicited_first', 'unsolicited_between',
                    'availability_mismatch', 'availability_empty', 'price_rejected', 'error_object', 'malformed_json',
                    'nested_json', 'oversized_json', 'non_utf8', 'body_without_header', 'drip', 'reset_mid_body',
                    'close_after_header', 'wrong_then_right', 'no_reply', 'unrelated_bytes']
# misbehaviours of the second peer of family `race` (the ones that end its own transfer quickly)
RACE_CATALOGUE = ['wrong_hash', 'length_short', 'length_long', 'length_zero', 'length_huge', 'corrupt_byte', 'excess_bytes',
                  'availability_mismatch', 'price_rejected', 'error_object', 'malformed_json', 'reset_mid_body',
                  'close_after_header', 'unrelated_bytes', 'short_then_silence']
CLIENT_CATALOGUE = ['oversized', 'oversized_with_brace', 'no_brace_trickle', 'invalid_json', 'json_list', 'json_string',
                    'empty_requested_blobs', 'non_string_hash', 'unknown_blob', 'unverified_blob', 'path_hash',
                    'pipelined', 'never_read', 'request_then_close', 'non_utf8']


def gen(run_seed, tier):
    r = stream('C10.gen', run_seed)
    fam = r.choices(['honest', 'hostile_server', 'hostile_client', 'jsonlike', 'net_faults'], [5, 4, 3, 0.6, 2])[0]
    big = r.random() < (0.06 if tier == 'quick' else 0.15)

    def size():
        if big and r.random() < 0.6:
            return r.choice([MAX, MAX - 1, MAX - 16, 1024 * 1024, 1024 * 1024 + 1, r.randint(300_000, MAX)])
        return r.choice([1, 2, 15, 16, 17, 64, 100, 1199, 1200, 1201, 4096, 16383, 16384, 16385, 65536, 65537,
                         r.randint(1, 5000), r.randint(1, 200_000)])

    def blob_spec():
        return {'n': size(), 'seed': r.getrandbits(32), 'kind': r.choices(['rand', 'brace', 'json', 'zero'], [8, 1, 1, 0.5])[0]}

    sc = {'family': fam,
          'timeouts': {'connect': r.choice([1.0, 3.0]), 'download': r.choice([5.0, 30.0]), 'idle': r.choice([10.0, 30.0]),
                       'transfer': r.choice([20.0, 60.0])},
          'net': {'latency': [0.0005, r.choice([0.002, 0.02, 0.2])], 'chunk_mode': r.choice(['mixed', 'mixed', 'whole', 'bytes', 'header']),
                  'connect_latency': [0.001, r.choice([0.01, 0.5])], 'stall_prob': r.choice([0.0, 0.0, 0.05]), 'stall_s': 1.0},
          'exec_delay': r.choice([0.0005, 0.002, 0.05])}
    blobs = [blob_spec() for _ in range(r.choice([1, 1, 2, 3, 4]))]
    sc['blobs'] = blobs
    for b in blobs:
        if sc['net']['chunk_mode'] == 'bytes':
            b['n'] = min(b['n'], 3000)
        if fam == 'hostile_server' and sc['net']['chunk_mode'] == 'bytes':
            # ... and with 1-byte fragments that re-parse happens per byte (cubic): tiny blobs only
            b['n'] = min(b['n'], 300 if b['kind'] == 'rand' else 60)
        if fam == 'hostile_server':
            # when a header is not accepted the client re-parses its growing buffer on every '}' of the body
            # (quadratic wall-clock cost, a performance matter): keep those sessions small
            b['n'] = min(b['n'], 100_000)
        if b['kind'] in ('brace', 'json'):
            # the client's response parser retries json.loads on every '}' of a chunk (quadratic wall-clock cost;
            # a performance matter outside this technique) - keep such blobs small so runs stay cheap
            b['n'] = min(b['n'], 20000)
    if fam == 'honest' and r.random() < 0.12:
        # slow but legitimate link: the transfer takes longer than the server's IDLE timeout yet stays well inside
        # the transfer timeout and the client's download timeout - every timeout must be applied to its own phase
        n_slow = r.choice([262144, 524288, 1024 * 1024, MAX])
        blobs[:] = [{'n': n_slow, 'seed': r.getrandbits(32), 'kind': 'rand'}]
        sc['blobs'] = blobs
        sc['timeouts'] = {'connect': 3.0, 'download': 30.0, 'idle': 10.0, 'transfer': 60.0}
        sc['net'].update(latency=[0.0005, 0.002], stall_prob=0.0, chunk_mode=r.choice(['whole', 'mixed']))
        sc['exec_delay'] = round(2 * r.uniform(14.0, 19.0) / (n_slow // 16384 + 1), 4)
        sc['slow'] = True
        sc['ops'] = [{'op': 'client', 'id': 0, 'requests': [0], 'via': 'request_blob', 'know_length': r.random() < 0.5,
                      'start': 0.0, 'gap': 0.0}]
        return sc
    # the honest family must be feasible: a transfer has to fit well inside the download/transfer timeouts
    nmax = max(b['n'] for b in blobs)
    blocks = nmax // 16384 + 1
    est = blocks * (sc['exec_delay'] + sc['net']['stall_prob'] * sc['net']['stall_s']) + 4 * sc['net']['latency'][1] + 1.0
    if est > 0.4 * min(sc['timeouts']['download'], sc['timeouts']['transfer']):
        sc['exec_delay'] = 0.0005
        sc['net']['stall_prob'] = 0.0
        sc['net']['latency'] = [0.0005, min(sc['net']['latency'][1], 0.02)]
        sc['timeouts']['download'] = 30.0
        sc['timeouts']['transfer'] = 60.0
    ops = []
    if fam == 'honest':
        n_clients = r.choice([1, 1, 1, 2, 3])
        for c in range(n_clients):
            reqs = [r.randrange(len(blobs)) for _ in range(r.choice([1, 1, 2, 3, 5]))]
            ops.append({'op': 'client', 'id': c, 'requests': reqs, 'via': r.choice(['request_blob', 'request_blob', 'downloader']),
                        'know_length': r.random() < 0.5, 'start': r.choice([0.0, 0.0, 0.01, 1.0]),
                        # a client must not sit idle on a kept-alive connection for as long as the server's idle
                        # timeout (benign keep-alive race, not a lying peer): total idle time stays below it
                        'gap': r.choice([0.0, 0.0, 0.5, 5.0 if sc['timeouts']['idle'] >= 30.0 else 1.0])})
    elif fam == 'hostile_server':
        ops.append({'op': 'hostile_server', 'behaviour': r.choice(SERVER_CATALOGUE), 'at': r.choice([0, 0, 1, 2]),
                    'requests': [r.randrange(len(blobs)) for _ in range(r.choice([1, 2, 3]))], 'p': r.random(),
                    'know_length': r.random() < 0.5, 'via': r.choice(['request_blob', 'request_blob', 'downloader'])})
    elif fam == 'hostile_client':
        for h in range(r.choice([1, 1, 2])):
            ops.append({'op': 'hostile_client', 'behaviour': r.choice(CLIENT_CATALOGUE), 'start': r.choice([0.0, 0.01, 0.5]),
                        'blob': r.randrange(len(blobs)), 'p': r.random()})
        ops.append({'op': 'client', 'id': 0, 'requests': [r.randrange(len(blobs))], 'via': 'request_blob', 'know_length': True,
                    'start': r.choice([0.0, 0.01, 0.3]), 'gap': 0.0})
        ops.append({'op': 'client', 'id': 1, 'requests': [r.randrange(len(blobs))], 'via': 'request_blob', 'know_length': False,
                    'start': 200.0, 'gap': 0.0})
    elif fam == 'net_faults':
        # honest peers, faulty network: the connection is reset or stalls past the timeouts at a seeded point of the
        # transfer; nothing may be poisoned, and once faults stop the same client must get the blob
        for c in range(r.choice([1, 1, 2])):
            ops.append({'op': 'faulty_client', 'id': c, 'blob': r.randrange(len(blobs)), 'know_length': r.random() < 0.5,
                        'via': r.choice(['request_blob', 'request_blob', 'downloader']),
                        'faults': [{'kind': r.choice(['reset', 'reset', 'stall', 'server_restart']), 'at': r.random()}
                                   for _ in range(r.choice([1, 1, 2, 3]))], 'start': r.choice([0.0, 0.01])})
    else:
        blobs[0]['kind'] = 'response_like'
        ops.append({'op': 'client', 'id': 0, 'requests': [0], 'via': 'request_blob', 'know_length': r.random() < 0.5, 'start': 0.0, 'gap': 0.0})
    sc['ops'] = ops
    # family `race` (own stream, earlier histories unchanged): one client fetches ONE blob from an honest server and
    # from a second peer at the same time over two connections; the second peer lies (catalogue) once the honest
    # transfer is under way, or is honest too and finishes at about the same time
    r4 = stream('C10.gen.race', run_seed)
    if r4.random() < 0.09:
        n = r4.choice([1200, 16384, 16385, 65536, 200_000, 500_000, r4.randint(2000, 300_000)])
        second = r4.choice(['honest'] * 8 + RACE_CATALOGUE * 2 + ['not_available', 'not_available'])
        sc = {'family': 'race',
              'timeouts': {'connect': 3.0, 'download': r4.choice([5.0, 30.0]), 'idle': 30.0, 'transfer': 60.0},
              'net': {'latency': [0.0005, r4.choice([0.002, 0.02])], 'chunk_mode': r4.choice(['mixed', 'whole']),
                      'connect_latency': [0.001, 0.01], 'stall_prob': 0.0, 'stall_s': 1.0},
              'exec_delay': r4.choice([0.0005, 0.002, 0.01]),
              'blobs': [{'n': n, 'seed': r4.getrandbits(32), 'kind': 'rand'}],
              'ops': [{'op': 'race', 'behaviour': second, 'at': 0, 'p': r4.random(), 'know_length': r4.random() < 0.25,
                       'second_after': round(r4.choice([0.0, 0.05, 0.3, 0.6, 0.9, r4.random()]), 3),
                       'second_delay': r4.choice([0.0, 0.0, 0.0005, 0.002, 0.01]),
                       'second_start': r4.choice(['early', 'early', 'late'])}]}
        pass
    # family `serving`: a node downloads a blob (BlobDownloader) and its own server is asked for the same blob in the
    # loop iterations right after the blob became verified - while the downloader is still winding up (own stream)
    r6 = stream('C10.gen.serving', run_seed)
    if r6.random() < 0.05:
        n = r6.choice([16385, 65536, 200_000, 500_000, r6.randint(20_000, 300_000)])
        sc = {'family': 'serving',
              'timeouts': {'connect': 3.0, 'download': 30.0, 'idle': 30.0, 'transfer': 60.0},
              'net': {'latency': [0.0005, r6.choice([0.002, 0.02])], 'chunk_mode': r6.choice(['mixed', 'whole']),
                      'connect_latency': [0.001, 0.01], 'stall_prob': 0.0, 'stall_s': 1.0},
              'exec_delay': r6.choice([0.0005, 0.002]),
              'blobs': [{'n': n, 'seed': r6.getrandbits(32), 'kind': 'rand'}],
              'ops': [{'op': 'serving', 'inject_after': r6.choice([0, 0, 1, 1, 2, 3, 5, 8]),
                       'know_length': r6.random() < 0.5}]}
    # family `dropper`: BlobDownloader with one peer that accepts, reads the request and drops the connection, for ever,
    # and one honest peer that fails once (its server comes up a moment later): the honest peer's ban must expire
    r7 = stream('C10.gen.dropper', run_seed)
    if r7.random() < 0.03:
        n = r7.choice([1200, 16385, 65536, 200_000])
        sc = {'family': 'dropper',
              'timeouts': {'connect': 3.0, 'download': r7.choice([2.0, 5.0]), 'idle': 30.0, 'transfer': 60.0},
              'net': {'latency': [0.0005, r7.choice([0.002, 0.02])], 'chunk_mode': 'mixed',
                      'connect_latency': [0.001, 0.01], 'stall_prob': 0.0, 'stall_s': 1.0},
              'exec_delay': 0.0005,
              'blobs': [{'n': n, 'seed': r7.getrandbits(32), 'kind': 'rand'}],
              'ops': [{'op': 'dropper', 'behaviour': 'drop_request', 'at': 0, 'p': r7.random(),
                       'honest_up_after': r7.choice([0.3, 0.5, 1.5]), 'drop_after': r7.choice([0.0, 0.05, 0.2]),
                       'know_length': r7.random() < 0.5}]}
    if sc['family'] == 'race':
        r5 = stream('C10.gen.race_pin', run_seed)
        if r5.random() < 0.3:
            # the liar speaks FIRST (wrong length, then silence), the honest request starts while the lie is in place,
            # and the liar's connection is dropped while the honest writer is still open.  The honest transfer of that
            # moment may fail (its header contradicts the lie); what must hold is that nothing is poisoned: a later
            # honest request gets the blob
            sc['ops'][0].update(behaviour='pin_length', know_length=False, pin={
                'honest_after': r5.choice([0.0, 0.0, 0.001, 0.01]), 'drop': r5.choice(['on_honest_request', 'on_honest_request',
                                                                                      'on_honest_header', 'timeout']),
                'delta': r5.choice([1, -1, 7, 50])})
    return sc


def shrink(sc):
    net = sc['net']
    if net.get('stall_prob'):
        yield dict(sc, net=dict(net, stall_prob=0.0))
    if net.get('chunk_mode') != 'whole':
        yield dict(sc, net=dict(net, chunk_mode='whole'))
    if net['latency'][1] > 0.002:
        yield dict(sc, net=dict(net, latency=[0.0005, 0.002]))
    for i, b in enumerate(sc['blobs']):
        if b['n'] > 64:
            for n2 in (b['n'] // 2, 64):
                bl = list(sc['blobs'])
                bl[i] = dict(b, n=n2)
                yield dict(sc, blobs=bl)
    for i, op in enumerate(sc['ops']):
        if len(op.get('requests', [])) > 1:
            for j in range(len(op['requests'])):
                ops = list(sc['ops'])
                ops[i] = dict(op, requests=op['requests'][:j] + op['requests'][j + 1:])
                yield dict(sc, ops=ops)


def make_bytes(spec):
    import random as _random
    n = spec['n']
    r = _random.Random(f"c10:{spec['seed']}")
    kind = spec.get('kind', 'rand')
    if kind == 'brace':
        return b'}' * n
    if kind == 'zero':
        return b'\x00' * n
    if kind == 'json':
        head = json.dumps({'stream_name': 'abc', 'blobs': [{'length': 5, 'blob_num': 0, 'iv': '00'}], 'x': {'y': '}'}}).encode()
        return (head * (n // len(head) + 1))[:n]
    if kind == 'response_like':
        head = json.dumps({'available_blobs': [], 'blob_data_payment_rate': 'RATE_ACCEPTED'}).encode()
        body = head + r.randbytes(max(0, n - len(head)))
        return body[:max(n, len(head))]
    return r.randbytes(n)


class _FakeSocketModule:
    AF_INET = 2
    SOCK_STREAM = 1

    class _S:
        def __enter__(self):
            return self

        def __exit__(self, *a):
            return False

        def connect_ex(self, addr):
            return 111

    def socket(self, *a, **k):
        return self._S()


class WireMonitor:
    """Parses everything real servers write, per connection (independent framing: brace matching)."""

    def __init__(self, run, server_transports, truth):
        self.run = run
        self.out = {}
        self.servers = server_transports   # set of transports of REAL servers
        self.truth = truth                 # fn(server_ip, hash) -> (verified?, bytes|None)

    def on_write(self, transport, data):
        if transport in self.servers:
            self.out.setdefault(transport, bytearray()).extend(data)

    def finish(self):
        run = self.run
        for t, buf in sorted(self.out.items(), key=lambda kv: kv[0].conn_id):
            data = bytes(buf)
            i = 0
            while i < len(data):
                if data[i:i + 1] != b'{':
                    run.violation('C10.wire_body_without_header', f'server wrote bytes outside a header-announced body at offset {i}: {data[i:i + 40]!r}')
                    return
                depth, j, in_str, esc = 0, i, False, False
                while j < len(data):
                    c = data[j]
                    if in_str:
                        if esc:
                            esc = False
                        elif c == 0x5c:
                            esc = True
                        elif c == 0x22:
                            in_str = False
                    elif c == 0x22:
                        in_str = True
                    elif c == 0x7b:
                        depth += 1
                    elif c == 0x7d:
                        depth -= 1
                        if depth == 0:
                            break
                    j += 1
                if j >= len(data):
                    break     # connection ended inside a header
                try:
                    head = json.loads(data[i:j + 1])
                except ValueError:
                    run.violation('C10.wire_bad_header', f'server wrote an unparseable header: {data[i:j + 1][:200]!r}')
                    return
                i = j + 1
                run.probes['wire_headers_checked'] += 1
                inc = head.get('incoming_blob')
                if isinstance(inc, dict) and 'blob_hash' in inc:
                    h, ln = inc.get('blob_hash'), inc.get('length')
                    verified, content = self.truth(t.sockname[0], h)
                    if not verified or content is None:
                        run.violation('C10.wire_unverified_blob', f'server announced blob {str(h)[:12]} which it does not hold verified')
                        return
                    if ln != len(content):
                        run.violation('C10.wire_wrong_length', f'server announced length {ln} for a blob of {len(content)} bytes')
                        return
                    body = data[i:i + ln]
                    if body != content[:len(body)]:
                        run.violation('C10.wire_wrong_bytes', f'server sent bytes differing from its verified blob {h[:12]}')
                        return
                    run.probes['wire_bodies_checked'] += 1
                    i += len(body)
                    if len(body) < ln:
                        break  # connection ended mid-body (timeout / peer gone): allowed


def execute(scenario, keep_trace=False):
    env.import_lbry()
    from simverif.core import blobenv as be
    from simverif.core.net import SimStreamNet
    import lbry.blob_exchange.server as srv_mod
    from lbry.blob_exchange.server import BlobServer
    from lbry.blob_exchange.client import request_blob
    from lbry.blob_exchange.downloader import BlobDownloader
    from lbry.blob.blob_manager import BlobManager
    from lbry.dht.peer import make_kademlia_peer

    srv_mod.socket = _FakeSocketModule()
    run = Run(scenario, keep_trace)
    d = float(scenario.get('exec_delay', 0.002))
    loop = run.new_loop(max_steps=3_000_000, max_vtime=5000, exec_delay=(0.0, d))
    T = scenario['timeouts']
    net_cfg = dict(scenario['net'])
    net_cfg['latency'] = tuple(net_cfg['latency'])
    net_cfg['connect_latency'] = tuple(net_cfg['connect_latency'])
    mode = net_cfg.get('chunk_mode')
    if mode == 'bytes':
        run.probes['one_byte_fragments'] += 1
    if mode == 'header':
        net_cfg['chunk_mode'] = 'mixed'

        def json_end(buf):
            """index of the brace closing the top-level object `buf` starts with (or -1)"""
            depth, in_str, esc = 0, False, False
            for k in range(min(len(buf), 4096)):
                c = buf[k]
                if in_str:
                    if esc:
                        esc = False
                    elif c == 0x5c:
                        esc = True
                    elif c == 0x22:
                        in_str = False
                elif c == 0x22:
                    in_str = True
                elif c == 0x7b:
                    depth += 1
                elif c == 0x7d:
                    depth -= 1
                    if depth == 0:
                        return k
            return -1

        def chunker(rng, pipe, n):
            j = json_end(pipe.buf) if pipe.buf[:1] == b'{' else -1
            if 0 <= j < n:
                x = rng.random()
                if x < 0.45:
                    run.probes['header_alone'] += 1
                    return j + 1
                if x < 0.8:
                    run.probes['header_glued'] += 1
                    return j + 1 + rng.choice([1, 2, 16, 100, n])
                return rng.randint(1, j + 1)
            return rng.choice([n, rng.randint(1, n)])
        net_cfg['chunker'] = chunker
    net = SimStreamNet(run, loop, net_cfg)
    dirs = []
    blobs = [make_bytes(b) for b in scenario['blobs']]
    hashes = [hashlib.sha384(b).hexdigest() for b in blobs]
    truth = dict(zip(hashes, blobs))
    for b in blobs:
        if len(b) >= 1024 * 1024:
            run.probes['big_blob'] += 1
        if len(b) <= 16:
            run.probes['tiny_blob'] += 1
        if b[:1] == b'}':
            run.probes['brace_blob'] += 1
    SERVER_IP, HOSTILE_IP, PORT = '4.4.4.4', '5.5.5.5', 3333
    state = {'servers': {}, 'clients': {}, 'server_transports': set(), 'judged': 0}

    async def make_node(name):
        dr = be.Dirs(prefix=f'sv-c10-{name}-')
        dirs.append(dr)
        conf = be.make_config(dr, peer_connect_timeout=T['connect'], blob_download_timeout=T['download'])
        storage = await be.open_storage(loop, conf, dr)
        bm = BlobManager(loop, dr.blobs, storage, conf)
        await bm.setup()
        return {'dirs': dr, 'conf': conf, 'storage': storage, 'bm': bm}

    def server_truth(ip, h):
        node = state['servers'].get(ip)
        if node is None or h not in truth:
            return False, None
        return h in node['verified'], truth[h]

    monitor = WireMonitor(run, state['server_transports'], server_truth)
    net.observers.append(monitor)

    class ConnTracker:
        """server-side transports of real servers; time of connect and of close initiation"""

        def __init__(self):
            self.t = {}

        def on_connect(self, ct, st):
            if st.sockname[0] in state['servers']:
                state['server_transports'].add(st)
                self.t[st] = {'connect': loop.time(), 'close': None, 'how': None, 'client': ct.sockname}

        def on_close(self, transport, how):
            rec = self.t.get(transport)
            if rec is not None and rec['close'] is None:
                rec['close'] = loop.time()
                rec['how'] = how
    tracker = ConnTracker()
    net.observers.append(tracker)

    def file_state(node, h):
        p = os.path.join(node['dirs'].blobs, h)
        if not os.path.isfile(p):
            return None
        with open(p, 'rb') as f:
            return f.read()

    def check_poison(node, h, where):
        """verified or on disk  =>  exactly the right bytes (SHA-384 names them)."""
        data = file_state(node, h)
        blob = node['bm'].blobs.get(h)
        verified = bool(blob is not None and blob.get_is_verified())
        if data is not None and hashlib.sha384(data).hexdigest() != h:
            run.violation('C10.poisoned_file', f'{where}: a file named {h[:12]} holds {len(data)} bytes that do not hash to its name',
                          where=where)
            return False
        if verified and data is None:
            run.violation('C10.verified_without_file', f'{where}: blob {h[:12]} is marked verified but no file exists', where=where)
            return False
        if verified and (type(blob.get_length()) is not int or blob.get_length() != len(data)):
            # this node would now announce that length in its own headers ("a header naming exactly that hash and length")
            run.violation('C10.verified_wrong_length', f'{where}: blob {h[:12]} is verified with the right {len(data)} bytes on '
                          f'disk but its length is {blob.get_length()!r}', where=where,
                          length=type(blob.get_length()).__name__)
            return False
        if h in node['bm'].completed_blob_hashes and data is None:
            run.violation('C10.completed_without_file', f'{where}: blob {h[:12]} is announced as completed but no file exists', where=where)
            return False
        return True

    async def honest_client(op, server_ip=SERVER_IP):
        cid = op['id']
        node = state['clients'].get(cid)
        if node is None:
            node = state['clients'][cid] = await make_node(f'c{cid}')
        if op.get('start'):
            await asyncio.sleep(op['start'])
        protocol = None
        bm = node['bm']
        downloader = None
        if op.get('via') == 'downloader':
            q = asyncio.Queue()
            downloader = BlobDownloader(loop, node['conf'], bm, q)
            q.put_nowait([make_kademlia_peer(None, server_ip, tcp_port=PORT)])
            run.probes['downloader_path'] += 1
        for k, bi in enumerate(op['requests']):
            if run.violations:
                break
            bi %= len(hashes)
            h, content = hashes[bi], blobs[bi]
            if k and op.get('gap'):
                await asyncio.sleep(op['gap'])
            length = len(content) if op.get('know_length') else None
            if length is None:
                run.probes['unknown_length_request'] += 1
            t0 = loop.time()
            state['judged'] += 1
            try:
                if downloader is not None:
                    blob = await asyncio.wait_for(downloader.download_blob(h, length), 600)
                else:
                    blob = bm.get_blob(h, length)
                    if protocol is not None and protocol.transport is not None and not protocol.transport.is_closing():
                        run.probes['reused_connection'] += 1
                    _n, protocol = await request_blob(loop, blob, server_ip, PORT, T['connect'], T['download'],
                                                      connected_protocol=protocol)
            except asyncio.CancelledError:
                if asyncio.current_task().cancelling():
                    raise
                # request_blob itself ended with CancelledError (the connection was dropped under it)
                data = file_state(node, h)
                run.ev('honest', cid, k, bi, 'cancelled')
                run.violation('C10.honest_transfer_failed', f'client {cid} request {k} for a blob of {len(content)} bytes the '
                              f'server holds ended with CancelledError after {loop.time() - t0:.3f}s (connection dropped; '
                              f'client-side escapes: {[e[2:] for e in net.data_received_escapes if e[1] == "client"][:2]})',
                              via=op.get('via'), jsonlike=scenario['blobs'][bi].get('kind') == 'response_like')
                return
            except Exception as e:  # noqa
                run.violation('C10.honest_transfer_raised', f'client {cid} request {k}: {type(e).__name__}: {e}',
                              exc=type(e).__name__, via=op.get('via'))
                return
            dur = loop.time() - t0
            data = file_state(node, h)
            run.ev('honest', cid, k, bi, round(dur, 5), bool(blob.get_is_verified()), None if data is None else len(data))
            if not blob.get_is_verified() or data != content:
                run.violation('C10.honest_transfer_failed', f'client {cid} request {k} for a blob of {len(content)} bytes the '
                              f'server holds ended unverified/unequal after {dur:.3f}s (verified={blob.get_is_verified()}, '
                              f'file={"none" if data is None else len(data)})', via=op.get('via'),
                              jsonlike=scenario['blobs'][bi].get('kind') == 'response_like')
                return
            run.probes['honest_transfer_ok'] += 1
            if dur > T['idle']:
                run.probes['honest_transfer_longer_than_idle_timeout'] += 1
        if downloader is not None:
            downloader.close()
        elif protocol is not None:
            protocol.close()

    # ---- honest peers over a faulty network ---------------------------------------------------------
    class FaultInjector:
        """resets / stalls the next connection of a client once `after` bytes have reached it"""

        def __init__(self):
            self.armed = {}          # client ip -> fault dict
            self.count = {}

        def on_connect(self, ct, st):
            f = self.armed.pop(ct.sockname[0], None)
            if f is not None:
                self.count[ct] = [0, f]

        def on_deliver(self, transport, chunk):
            rec = self.count.get(transport)
            if rec is None:
                return
            rec[0] += len(chunk)
            if rec[0] >= rec[1]['after']:
                del self.count[transport]
                kind = rec[1]['kind']
                run.faults['net_' + kind] += 1
                if kind == 'reset':
                    loop.call_soon(net.reset, transport)
                elif kind == 'stall':
                    transport.pause_reading()
                    loop.call_later(T['download'] + T['transfer'] + 5.0, transport.resume_reading)
                elif kind == 'server_restart':
                    loop.call_soon(restart_server)
    injector = FaultInjector()
    net.observers.append(injector)

    def restart_server():
        node = state['servers'].get(SERVER_IP)
        if node is None or not node.get('server'):
            return
        node['server'].stop_server()
        for t in list(state['server_transports']):
            if not t._closed:
                net.reset(t)
        server = BlobServer(loop, node['bm'], 'bQEaw42GXsgCAGio1nxFncJSyRmnztSCjP', idle_timeout=T['idle'], transfer_timeout=T['transfer'])
        server.start_server(PORT, SERVER_IP)
        node['server'] = server

    async def faulty_client(op):
        cid = op['id']
        node = state['clients'].get(cid)
        if node is None:
            node = state['clients'][cid] = await make_node(f'c{cid}')
        client_ip = f'9.8.7.{10 + cid}'
        bm = node['bm']
        bi = op['blob'] % len(hashes)
        h, content = hashes[bi], blobs[bi]
        length = len(content) if op.get('know_length') else None
        if op.get('start'):
            await asyncio.sleep(op['start'])

        async def attempt(budget):
            net.cfg['client_ip'] = client_ip
            if op.get('via') == 'downloader':
                q = asyncio.Queue()
                dl = BlobDownloader(loop, node['conf'], bm, q)
                q.put_nowait([make_kademlia_peer(None, SERVER_IP, tcp_port=PORT)])
                try:
                    await asyncio.wait_for(dl.download_blob(h, length), budget)
                except asyncio.TimeoutError:
                    pass
                finally:
                    dl.close()
            else:
                blob = bm.get_blob(h, length)
                task = loop.create_task(request_blob(loop, blob, SERVER_IP, PORT, T['connect'], T['download']))
                done, _ = await asyncio.wait([task], timeout=budget)
                if not done:
                    task.cancel()
                    run.violation('C10.request_never_ended', f'request_blob over a faulted connection was still pending after '
                                  f'{budget:.0f}s', behaviour='net_fault')
                    return False
                if not task.cancelled() and task.exception() is not None:
                    e = task.exception()
                    run.violation('C10.request_raised', f'request_blob over a faulted connection raised {type(e).__name__}: {e}',
                                  behaviour='net_fault', exc=type(e).__name__)
                    return False
                if not task.cancelled() and task.result()[1] is not None:
                    task.result()[1].close()
            return True

        bound = T['connect'] + 2 * T['download'] + T['transfer'] + 10.0
        for f in op.get('faults', []):
            if run.violations:
                return
            blob = bm.blobs.get(h)
            if blob is not None and blob.get_is_verified():
                break
            injector.armed[client_ip] = {'kind': f['kind'], 'after': max(1, int(f.get('at', 0.5) * (len(content) + 300)))}
            state['judged'] += 1
            if not await attempt(bound + 120):
                return
            injector.armed.pop(client_ip, None)
            await asyncio.sleep(0.3)
            run.ev('faulted_attempt', cid, f['kind'], bool(bm.blobs.get(h) and bm.blobs[h].get_is_verified()))
            if not check_poison(node, h, 'net_fault'):
                return
        # faults have stopped: the blob must now arrive (a couple of attempts: bans / closed keep-alive connections
        # of the previous attempt may cost one)
        await asyncio.sleep(T['idle'] + 2.0)
        for _try in range(3):
            blob = bm.blobs.get(h)
            if blob is not None and blob.get_is_verified():
                break
            if not await attempt(bound + 120):
                return
            await asyncio.sleep(1.0)
        blob = bm.blobs.get(h)
        data = file_state(node, h)
        if blob is None or not blob.get_is_verified() or data != content:
            run.violation('C10.no_recovery_after_fault', f'after the network faults {[f["kind"] for f in op.get("faults", [])]} stopped, '
                          f'three further attempts by client {cid} did not obtain the blob of {len(content)} bytes the server '
                          f'holds (verified={bool(blob and blob.get_is_verified())}, file={"none" if data is None else len(data)})',
                          via=op.get('via'))
            return
        run.probes['recovered_after_net_fault'] += 1

    # ---- scripted hostile server -------------------------------------------------------------------
    class HostileServer(asyncio.Protocol):
        def __init__(self, op):
            self.op = op
            self.buf = b''
            self.n_req = 0
            self.transport = None
            self.r = run.rng('hostile.server', op.get('behaviour'))

        def connection_made(self, transport):
            self.transport = transport
            if self.op['behaviour'] == 'unsolicited_first' and self.op.get('at', 0) == 0:
                run.faults['hs_unsolicited_first'] += 1
                transport.write(self.r.randbytes(self.r.choice([1, 10, 300])))

        def connection_lost(self, exc):
            self.transport = None

        def data_received(self, data):
            self.buf += data
            if b'}' not in self.buf:
                return
            try:
                req = json.loads(self.buf)
            except ValueError:
                return
            self.buf = b''
            h = req.get('requested_blob')
            idx = self.n_req
            self.n_req += 1
            content = truth.get(h)
            if content is None:
                self.transport.close()
                return
            beh = self.op['behaviour'] if idx == self.op.get('at', 0) or self.op['behaviour'] == 'drop_request' else 'honest'
            loop.create_task(self.reply(beh, h, content))

        def header(self, h, length, avail=None, rate='RATE_ACCEPTED', extra=None):
            dct = {'available_blobs': [h] if avail is None else avail, 'blob_data_payment_rate': rate,
                   'incoming_blob': {'blob_hash': h, 'length': length}}
            if extra:
                dct.update(extra)
            return json.dumps(dct).encode()

        async def reply(self, beh, h, content):
            t, r, n = self.transport, self.r, len(content)
            if t is None:
                return
            if beh != 'honest' and self.op.get('op') == 'race' and beh != 'pin_length':
                await state['race_go'].wait()       # see race_session: a liar speaks once the honest header is in
                await asyncio.sleep(self.op.get('second_delay', 0.0))
                t = self.transport
                if t is None:
                    return
                state['race_fire_got'] = state['race_progress'].got
            if beh != 'honest':
                run.faults['hs_' + beh] += 1
                run.probes['hostile_server_fired'] += 1
            p = self.op.get('p', 0.5)
            other = hashlib.sha384(b'other' + h.encode()).hexdigest()
            if beh == 'honest':
                t.write(self.header(h, n) + content)
            elif beh == 'wrong_hash':
                t.write(self.header(other, n, avail=[h]) + content)
            elif beh == 'length_short':
                t.write(self.header(h, max(0, n - 1 - int(p * min(n, 50)))) + content)
            elif beh == 'length_long':
                t.write(self.header(h, n + 1 + int(p * 50)) + content + b'x' * 60)
            elif beh == 'length_zero':
                t.write(self.header(h, 0) + content)
            elif beh == 'length_negative':
                t.write(self.header(h, -1 - int(p * 100)) + content)
            elif beh == 'length_huge':
                t.write(self.header(h, MAX + 1 + int(p * 10 ** 9)) + content)
            elif beh == 'length_string':
                t.write(self.header(h, str(n)) + content)
            elif beh == 'length_float':
                t.write(self.header(h, float(n)) + content)
            elif beh == 'corrupt_byte':
                pos = min(n - 1, int(p * n))
                bad = bytearray(content)
                bad[pos] ^= 1 << r.randrange(8)
                t.write(self.header(h, n) + bytes(bad))
            elif beh == 'short_then_silence':
                t.write(self.header(h, n) + content[:int(p * n)])
            elif beh == 'excess_bytes':
                t.write(self.header(h, n) + content + r.randbytes(1 + int(p * 100)))
            elif beh == 'unsolicited_first':
                t.write(r.randbytes(5) + self.header(h, n) + content)
            elif beh == 'unsolicited_between':
                t.write(self.header(h, n) + content)
                await asyncio.sleep(0.05 + p)
                if self.transport is not None:
                    self.transport.write(r.choice([b'x', r.randbytes(100), self.header(other, 5) + b'abcde']))
            elif beh == 'availability_mismatch':
                t.write(self.header(h, n, avail=[other]) + content)
            elif beh == 'availability_empty':
                t.write(self.header(h, n, avail=[]) + content)
            elif beh == 'price_rejected':
                t.write(self.header(h, n, rate='RATE_TOO_LOW') + content)
            elif beh == 'error_object':
                t.write(json.dumps({'available_blobs': [h], 'blob_data_payment_rate': 'RATE_ACCEPTED',
                                    'incoming_blob': {'error': 'BLOB_UNAVAILABLE'}}).encode() + content[:int(p * n)])
            elif beh == 'malformed_json':
                t.write(r.choice([b'{"available_blobs": [}', b'{]}', b'{"incoming_blob": {"blob_hash": }}', b'}}}}']) + content)
            elif beh == 'nested_json':
                t.write(b'{"a":' * 200 + b'1' + b'}' * 200 + content)
            elif beh == 'oversized_json':
                t.write(b'{"available_blobs": ["' + b'a' * (200_000 + int(p * 10 ** 6)) + b'"]')
            elif beh == 'non_utf8':
                t.write(b'{"available_blobs": ["\xff\xfe\xfd"]}' + content)
            elif beh == 'body_without_header':
                t.write(content)
            elif beh == 'drip':
                t.write(self.header(h, n))
                for i in range(min(n, 6)):
                    await asyncio.sleep(T['download'] - 1.0)
                    if self.transport is None:
                        return
                    self.transport.write(content[i:i + 1])
            elif beh == 'reset_mid_body':
                t.write(self.header(h, n) + content[:int(p * n)])
                await asyncio.sleep(0.01 + p * 0.2)
                if self.transport is not None:
                    net.reset(self.transport)
            elif beh == 'close_after_header':
                t.write(self.header(h, n))
                t.close()
            elif beh == 'wrong_then_right':
                bad = bytearray(content)
                bad[0] ^= 0xff
                t.write(self.header(h, n) + bytes(bad))
                await asyncio.sleep(0.05)
                if self.transport is not None:
                    self.transport.write(self.header(h, n) + content)
            elif beh == 'no_reply':
                return
            elif beh == 'pin_length':
                pin = self.op.get('pin', {})
                t.write(self.header(h, max(1, n + int(pin.get('delta', 1)))) + content[:int(p * n)])
                if pin.get('drop') != 'timeout':
                    await state['race_drop'].wait()
                    if self.transport is not None:
                        net.reset(self.transport)
            elif beh == 'drop_request':
                await asyncio.sleep(self.op.get('drop_after', 0.05))
                if self.transport is not None:
                    self.transport.close()
            elif beh == 'not_available':
                t.write(json.dumps({'available_blobs': [], 'blob_data_payment_rate': 'RATE_ACCEPTED',
                                    'incoming_blob': {'error': 'BLOB_UNAVAILABLE'}}).encode())
            elif beh == 'unrelated_bytes':
                t.write(self.header(h, n) + r.randbytes(n))
            else:
                t.write(self.header(h, n) + content)

    async def hostile_server_session(op):
        srv = await loop.create_server(lambda: HostileServer(op), HOSTILE_IP, PORT)
        node = state['clients'][0] = await make_node('c0')
        bm = node['bm']
        protocol = None
        downloader = None
        if op.get('via') == 'downloader':
            q = asyncio.Queue()
            downloader = BlobDownloader(loop, node['conf'], bm, q)
            q.put_nowait([make_kademlia_peer(None, HOSTILE_IP, tcp_port=PORT)])
        bound = T['connect'] + 2 * T['download'] + 1.0
        for k, bi in enumerate(op['requests']):
            bi %= len(hashes)
            h, content = hashes[bi], blobs[bi]
            length = len(content) if op.get('know_length') else None
            t0 = loop.time()
            state['judged'] += 1
            outcome = 'returned'
            try:
                if downloader is not None:
                    # the downloader retries its only peer for ever (at network speed when request_blob ends with
                    # CancelledError, which bypasses its ban list): bound the session ourselves
                    try:
                        await asyncio.wait_for(downloader.download_blob(h, length), min(bound, 12.0) + 8.0)
                    except asyncio.TimeoutError:
                        outcome = 'downloader_gave_up'
                else:
                    blob = bm.get_blob(h, length)
                    task = loop.create_task(request_blob(loop, blob, HOSTILE_IP, PORT, T['connect'], T['download'],
                                                         connected_protocol=protocol))
                    done, _ = await asyncio.wait([task], timeout=bound + 120)
                    if not done:
                        task.cancel()
                        run.violation('C10.request_never_ended', f'request_blob against a `{op["behaviour"]}` server was still '
                                      f'pending after {bound + 120:.0f}s', behaviour=op['behaviour'])
                        return
                    if task.cancelled():
                        outcome = 'cancelled'
                        run.probes['request_ended_cancelled'] += 1
                        protocol = None
                    elif task.exception() is not None:
                        e = task.exception()
                        run.violation('C10.request_raised', f'request_blob against a `{op["behaviour"]}` server raised '
                                      f'{type(e).__name__}: {e}', behaviour=op['behaviour'], exc=type(e).__name__)
                        return
                    else:
                        _n, protocol = task.result()
                    dur = loop.time() - t0
                    if dur > bound:
                        run.violation('C10.request_too_slow', f'request_blob against a `{op["behaviour"]}` server took {dur:.1f}s '
                                      f'(bound {bound:.1f}s)', behaviour=op['behaviour'])
                        return
            except asyncio.CancelledError:
                raise
            data = file_state(node, h)
            blob = bm.blobs.get(h)
            run.ev('hostile_server', op['behaviour'], k, outcome, round(loop.time() - t0, 4),
                   bool(blob and blob.get_is_verified()), None if data is None else len(data))
            await asyncio.sleep(0.2)
            if not check_poison(node, h, 'hostile_server'):
                return
            if blob is not None and blob.get_is_verified() and k == op.get('at', 0) and op['behaviour'] != 'honest':
                run.probes['liar_sent_right_bytes_verified'] += 1
        if downloader is not None:
            downloader.close()
        elif protocol is not None:
            protocol.close()
        srv.close()
        # the same client process must still be able to fetch from an honest server
        await start_real_server()
        fresh = [i for i in range(len(hashes)) if not (bm.blobs.get(hashes[i]) and bm.blobs[hashes[i]].get_is_verified())]
        if fresh:
            await honest_client({'id': 0, 'requests': fresh[:2], 'via': 'request_blob', 'know_length': False})
            if not run.violations:
                run.probes['followup_honest_ok'] += 1

    # ---- two peers, one blob ------------------------------------------------------------------------
    async def race_session(op):
        await start_real_server()
        srv = await loop.create_server(lambda: HostileServer(op), HOSTILE_IP, PORT)
        node = state['clients'][0] = await make_node('c0')
        bm = node['bm']
        h, content = hashes[0], blobs[0]
        n = len(content)
        length = n if op.get('know_length') else None
        blob = bm.get_blob(h, length)
        go = state['race_go'] = asyncio.Event()
        threshold = int(op.get('second_after', 0.0) * n)

        class Progress:
            got = 0

            def on_deliver(self, transport, chunk):
                if getattr(transport, 'peername', (None,))[0] == SERVER_IP:
                    self.got += len(chunk)
                    # the honest header (well under 400 bytes) has been handed to the client: its length is in place
                    if self.got >= 400 + threshold:
                        go.set()
        progress = state['race_progress'] = Progress()
        net.observers.append(progress)
        state['judged'] += 1
        t0 = loop.time()
        pin = op.get('pin') if op['behaviour'] == 'pin_length' else None
        lie_in = asyncio.Event()
        state['race_drop'] = asyncio.Event()

        class PinWatch:
            def on_deliver(self, transport, chunk):
                peer = getattr(transport, 'peername', (None,))[0]
                if peer == HOSTILE_IP:
                    lie_in.set()                    # the liar's header has been handed to the client
                elif peer == SERVER_IP and pin and pin.get('drop') == 'on_honest_header':
                    loop.call_soon(state['race_drop'].set)

            def on_write(self, transport, data):
                if pin and pin.get('drop') == 'on_honest_request' and getattr(transport, 'peername', (None,))[0] == SERVER_IP:
                    state['race_drop'].set()        # the honest request is out: its writer is registered on the blob
        watch = PinWatch()
        if pin:
            net.observers.append(watch)
            run.probes['race_pin'] += 1

        async def first():
            if pin:
                await lie_in.wait()
                await asyncio.sleep(pin.get('honest_after', 0.0))
            return await request_blob(loop, blob, SERVER_IP, PORT, T['connect'], T['download'])

        async def second():
            if op['behaviour'] == 'honest' or op.get('second_start') == 'early' or pin:
                # two honest peers neck and neck; or a liar that is asked at the same time (both requests start with
                # the length unknown) and answers later
                await asyncio.sleep(op.get('second_delay', 0.0))
            else:
                # a liar may speak only once the honest header is in (the scripted server waits for `go` too): a wrong
                # length announced FIRST makes the honest header look like the lie, which the statement does not exclude
                await go.wait()
            return await request_blob(loop, blob, HOSTILE_IP, PORT, T['connect'], T['download'])
        tasks = [loop.create_task(first()), loop.create_task(second())]
        # a liar told to wait for a share of the honest body the transfer never reports (the threshold can exceed what
        # is delivered) must not wait for ever on the harness' own event
        tasks[0].add_done_callback(lambda _t: go.set())
        bound = 2 * (T['connect'] + 2 * T['download']) + 5.0
        done, pending = await asyncio.wait(tasks, timeout=bound)
        go.set()
        if pending:
            for t in pending:
                t.cancel()
            run.violation('C10.request_never_ended', f'two requests for one blob (second peer `{op["behaviour"]}`): '
                          f'{len(pending)} still pending after {bound:.0f}s', behaviour=op['behaviour'])
            return
        outcomes = []
        for t in tasks:
            if t.cancelled():
                outcomes.append('cancelled')
            elif t.exception() is not None:
                e = t.exception()
                run.violation('C10.request_raised', f'two requests for one blob (second peer `{op["behaviour"]}`): request_blob '
                              f'raised {type(e).__name__}: {e}', behaviour=op['behaviour'], exc=type(e).__name__)
                return
            else:
                outcomes.append('returned')
                if t.result()[1] is not None:
                    t.result()[1].close()
        await asyncio.sleep(0.5)
        net.observers.remove(progress)
        state['race_drop'].set()
        if pin:
            net.observers.remove(watch)
        srv.close()
        if pin and not blob.get_is_verified():
            # never poisoned: the same client, asking the honest server again, gets the blob
            run.probes['race_pin_followup'] += 1
            if blob.get_length() is not None and blob.get_length() != n:
                run.probes['race_pin_lie_still_in_place'] += 1
            try:
                _n, proto2 = await asyncio.wait_for(request_blob(loop, blob, SERVER_IP, PORT, T['connect'], T['download']),
                                                    T['connect'] + 2 * T['download'] + 5.0)
                if proto2 is not None:
                    proto2.close()
            except asyncio.CancelledError:
                if asyncio.current_task().cancelling():
                    raise
            except asyncio.TimeoutError:
                pass
            await asyncio.sleep(0.5)
        data = file_state(node, h)
        status = be.blob_status_map(node['dirs'].db_path).get(h)
        run.ev('race', op['behaviour'], outcomes, round(loop.time() - t0, 4), bool(blob.get_is_verified()),
               None if data is None else len(data), status, blob.get_length())
        run.probes['race_checked'] += 1
        if op['behaviour'] == 'honest':
            run.probes['race_two_honest'] += 1
        elif state.get('race_fire_got', n + 10 ** 6) < n:
            run.probes['race_liar_during_honest_body'] += 1
        if not check_poison(node, h, 'race'):
            return
        what = None
        if not blob.get_is_verified() or data != content:
            what = f'the blob ended unverified/unequal (verified={blob.get_is_verified()}, file={"none" if data is None else len(data)})'
        elif blob.get_length() != n:
            what = f'the blob is verified but its length is {blob.get_length()!r}'
        elif status != 'finished' or h not in bm.completed_blob_hashes:
            what = (f'the blob is verified on disk but was never recorded (status={status!r}, in completed set='
                    f'{h in bm.completed_blob_hashes})')
        if what:
            run.violation('C10.honest_transfer_failed', f'client fetching a blob of {n} bytes from an honest server while a '
                          f'second peer (`{op["behaviour"]}`) served the same blob on another connection: {what}; requests '
                          f'ended {outcomes}; client-side escapes: '
                          f'{[e[2:] for e in net.data_received_escapes if e[1] == "client"][:2]}',
                          via='race', jsonlike=False)

    # ---- a node that downloads a blob and is asked for it at once -------------------------------------------------
    async def serving_session(op):
        from lbry.blob_exchange.serialization import BlobRequest
        await start_real_server()                                  # P: honest, holds the blob
        S_IP = '8.8.4.4'
        node = state['clients'][0] = await make_node('s')          # S: downloads from P and serves what it has
        bm = node['bm']
        s_server = BlobServer(loop, bm, 'bQEaw42GXsgCAGio1nxFncJSyRmnztSCjP', idle_timeout=T['idle'],
                              transfer_timeout=T['transfer'])
        s_server.start_server(PORT, S_IP)
        await s_server.started_listening.wait()
        node['server'] = s_server
        h, content = hashes[0], blobs[0]
        n = len(content)

        class Reader(asyncio.Protocol):                            # C: an honest reader of S (raw, so that its request
            def __init__(self):                                    # can be placed in a chosen loop iteration)
                self.buf = bytearray()
                self.lost = None

            def connection_made(self, transport):
                self.transport = transport

            def data_received(self, data):
                self.buf += data

            def connection_lost(self, exc):
                self.lost = loop.time()
        reader = Reader()
        ct, st = net.attach_raw_client(S_IP, PORT, reader)
        await asyncio.sleep(0.05)
        request = BlobRequest.make_request_for_blob_hash(h).serialize()
        fired = {'at': None}

        def watch(_loop):
            blob = bm.blobs.get(h)
            if fired['at'] is None and blob is not None and blob.get_is_verified():
                fired['at'] = loop.time()
                # the request reaches S's server `inject_after` loop iterations after the blob became verified
                def later(k):
                    if k <= 0:
                        run.faults['request_right_after_verified'] += 1
                        st._protocol.data_received(request)
                    else:
                        loop.call_soon(later, k - 1)
                loop.call_soon(later, int(op.get('inject_after', 0)))
        loop.after_handle = watch
        q = asyncio.Queue()
        downloader = BlobDownloader(loop, node['conf'], bm, q)
        q.put_nowait([make_kademlia_peer(None, SERVER_IP, tcp_port=PORT)])
        state['judged'] += 1
        try:
            await asyncio.wait_for(downloader.download_blob(h, n if op.get('know_length') else None), 120)
        except Exception as e:  # noqa
            loop.after_handle = None
            run.violation('C10.honest_transfer_failed', f'the downloading node itself did not get the blob: {type(e).__name__}: {e}',
                          via='serving', jsonlike=False)
            return
        # give S's answer to C the time a transfer may take
        deadline = loop.time() + T['transfer'] + T['idle'] + 5.0
        while loop.time() < deadline and reader.lost is None:
            buf = bytes(reader.buf)
            k = buf.find(b'}')
            if k >= 0 and len(buf) - (buf.rfind(b'}', 0, 400) + 1) >= n:
                break
            await asyncio.sleep(0.05)
        loop.after_handle = None
        downloader.close()
        buf = bytes(reader.buf)
        run.probes['serving_checked'] += 1
        run.ev('serving', op.get('inject_after'), fired['at'] is not None, len(buf), reader.lost is not None)
        if fired['at'] is None:
            run.probes['serving_never_fired'] += 1
            return
        # header = the first top-level JSON object; everything after it is the body
        depth, end = 0, -1
        for i, c in enumerate(buf[:2000]):
            if c == 0x7b:
                depth += 1
            elif c == 0x7d:
                depth -= 1
                if depth == 0:
                    end = i
                    break
        header = None
        if end >= 0:
            try:
                header = json.loads(buf[:end + 1])
            except ValueError:
                header = None
        body = buf[end + 1:] if end >= 0 else b''
        inc = (header or {}).get('incoming_blob') or {}
        if inc.get('blob_hash') == h and inc.get('length') == n:
            run.probes['serving_header_announced_blob'] += 1
            if body != content:
                run.violation('C10.honest_transfer_failed', f'a node that had just downloaded and verified a blob of {n} bytes '
                              f'announced it to a reader ({{hash, length {n}}}) {op.get("inject_after")} loop iteration(s) after it '
                              f'became verified and then delivered {len(body)} bytes (connection '
                              f'{"closed" if reader.lost is not None else "left open"}): its own downloader closed the blob under '
                              f'the transfer', via='serving', jsonlike=False)
        else:
            run.probes['serving_answered_not_available'] += 1      # legitimate: it may not have counted as verified yet
        if ct is not None and reader.lost is None:
            ct.close()

    # ---- a peer that drops every connection, and an honest peer that failed once ------------------------------------
    async def dropper_session(op):
        srv = await loop.create_server(lambda: HostileServer(op), HOSTILE_IP, PORT)
        node = state['clients'][0] = await make_node('c0')
        bm = node['bm']
        h, content = hashes[0], blobs[0]
        q = asyncio.Queue()
        downloader = BlobDownloader(loop, node['conf'], bm, q)
        q.put_nowait([make_kademlia_peer(None, HOSTILE_IP, tcp_port=PORT), make_kademlia_peer(None, SERVER_IP, tcp_port=PORT)])
        loop.call_later(op.get('honest_up_after', 0.5), lambda: loop.create_task(start_real_server()))
        state['judged'] += 1
        bound = 40.0 + 6 * T['download']          # bans last failures**2 seconds, 30 at most
        t0 = loop.time()
        try:
            blob = await asyncio.wait_for(downloader.download_blob(h, len(content) if op.get('know_length') else None), bound)
        except asyncio.TimeoutError:
            blob = None
        finally:
            downloader.close()
            srv.close()
        await asyncio.sleep(0.3)
        data = file_state(node, h)
        run.probes['dropper_checked'] += 1
        run.ev('dropper', round(loop.time() - t0, 3), blob is not None, None if data is None else len(data))
        if not check_poison(node, h, 'dropper'):
            return
        if blob is None or not blob.get_is_verified() or data != content:
            run.violation('C10.honest_transfer_failed', f'BlobDownloader with an honest peer that holds the blob (it refused one '
                          f'connection {op.get("honest_up_after")}s before it came up) and a peer that drops every connection did '
                          f'not get the blob within {bound:.0f}s: the honest peer stayed on the ignore list',
                          via='dropper', jsonlike=False)

    # ---- scripted hostile client --------------------------------------------------------------------
    class HostileClient(asyncio.Protocol):
        def __init__(self):
            self.received = 0
            self.transport = None
            self.lost = None

        def connection_made(self, transport):
            self.transport = transport

        def data_received(self, data):
            self.received += len(data)

        def connection_lost(self, exc):
            self.lost = loop.time()
            self.transport = None

    async def hostile_client_session(op):
        if op.get('start'):
            await asyncio.sleep(op['start'])
        beh = op['behaviour']
        proto = HostileClient()
        try:
            ct, st = net.attach_raw_client(SERVER_IP, PORT, proto)
        except ConnectionRefusedError:
            return
        run.faults['hc_' + beh] += 1
        run.probes['hostile_client_fired'] += 1
        r = run.rng('hostile.client', beh)
        h = hashes[op.get('blob', 0) % len(hashes)]
        good = json.dumps({'requested_blobs': [h], 'lbrycrd_address': True, 'blob_data_payment_rate': 0.0, 'requested_blob': h}).encode()
        t0 = loop.time()
        p = op.get('p', 0.5)
        if beh == 'oversized':
            ct.write(b'{"requested_blobs": ["' + b'a' * (1200 + int(p * 5000)))
        elif beh == 'oversized_with_brace':
            ct.write(b'{"requested_blobs": ["' + b'a' * (1150 + int(p * 200)) + b'"]}')
        elif beh == 'no_brace_trickle':
            for i in range(40):
                if proto.transport is None:
                    break
                ct.write(b'{"requested_blobs": ["'[i % 22:i % 22 + 1] or b'a')
                await asyncio.sleep(1.0 + p)
        elif beh == 'invalid_json':
            ct.write(r.choice([b'{"requested_blobs": [}', b'not json at all}', b'{{}', b'}']))
        elif beh == 'json_list':
            ct.write(b'[{"requested_blob": "x"}]')
        elif beh == 'json_string':
            ct.write(b'"requested_blob}"')
        elif beh == 'empty_requested_blobs':
            ct.write(b'{"requested_blobs": []}')
        elif beh == 'non_string_hash':
            ct.write(r.choice([b'{"requested_blob": 5}', b'{"requested_blob": null}', b'{"requested_blob": ["a"]}',
                               b'{"requested_blob": {"a": 1}}', b'{"requested_blobs": [5, null], "requested_blob": 7}']))
        elif beh == 'unknown_blob':
            u = hashlib.sha384(b'unknown').hexdigest()
            ct.write(json.dumps({'requested_blobs': [u], 'blob_data_payment_rate': 0.0, 'requested_blob': u}).encode())
        elif beh == 'unverified_blob':
            u = state['servers'][SERVER_IP].get('unverified')
            ct.write(json.dumps({'requested_blobs': [u], 'blob_data_payment_rate': 0.0, 'requested_blob': u}).encode())
        elif beh == 'path_hash':
            u = r.choice(['../../../etc/passwd', '/etc/passwd', 'a' * 95 + '/', '..', 'A' * 96, 'g' * 96, ''])
            ct.write(json.dumps({'requested_blobs': [u], 'blob_data_payment_rate': 0.0, 'requested_blob': u}).encode())
        elif beh == 'pipelined':
            ct.write(good + good)
        elif beh == 'never_read':
            ct.pause_reading()
            ct.write(good)
        elif beh == 'request_then_close':
            ct.write(good)
            await asyncio.sleep(p * 0.01)
            ct.close()
        elif beh == 'non_utf8':
            ct.write(b'{"requested_blob": "\xff\xfe"}')
        bound = T['idle'] + T['transfer'] + 1.0
        rec = tracker.t.get(st)
        waited = 0.0
        while rec is not None and rec['close'] is None and waited < bound + 60:
            await asyncio.sleep(1.0)
            waited += 1.0
        state['judged'] += 1
        run.ev('hostile_client', beh, None if rec is None or rec['close'] is None else round(rec['close'] - t0, 3),
               rec and rec['how'], proto.received)
        if rec is None:
            return
        if rec['close'] is None and proto.lost is None:
            run.violation('C10.hostile_client_not_closed', f'the server did not initiate the close of a `{beh}` client connection '
                          f'within {bound + 60:.0f}s', behaviour=beh)
            return
        if rec['close'] is not None:
            took = rec['close'] - t0
            run.probes['server_closed_hostile'] += 1
            if took < 1.0:
                run.probes['closed_immediately'] += 1
            elif took >= T['idle'] - 0.01:
                run.probes['closed_by_idle_timeout'] += 1
            if took > bound + (41 * 2.0 if beh == 'no_brace_trickle' else 0):
                run.violation('C10.hostile_client_closed_late', f'the server initiated the close of a `{beh}` client connection '
                              f'after {took:.1f}s (bound {bound:.1f}s)', behaviour=beh)
                return
        if ct is not None and not ct._closed:
            ct.abort()

    async def start_real_server():
        if SERVER_IP in state['servers']:
            return state['servers'][SERVER_IP]
        node = await make_node('srv')
        node['verified'] = set()
        for content in blobs:
            blob, _ = await be.download_blob(node['bm'], content, chunks=1, peer=('7.7.7.7', 3333))
            node['verified'].add(blob.blob_hash)
        # one blob the server holds only partially (never verified)
        part = hashlib.sha384(b'partial').hexdigest()
        pb = node['bm'].get_blob(part, 1000)
        w = pb.get_blob_writer('7.7.7.8', 3333)
        w.write(b'x' * 10)
        node['unverified'] = part
        await asyncio.sleep(0.1)
        server = BlobServer(loop, node['bm'], 'bQEaw42GXsgCAGio1nxFncJSyRmnztSCjP', idle_timeout=T['idle'], transfer_timeout=T['transfer'])
        server.start_server(PORT, SERVER_IP)
        await server.started_listening.wait()
        node['server'] = server
        state['servers'][SERVER_IP] = node
        return node

    async def driver():
        fam = scenario.get('family')
        ops = scenario['ops']
        tasks = []
        if fam == 'hostile_server':
            for op in ops:
                if op['op'] == 'hostile_server':
                    await hostile_server_session(op)
                    break
        elif fam == 'race':
            for op in ops:
                if op['op'] == 'race':
                    await race_session(op)
                    break
        elif fam == 'dropper':
            for op in ops:
                if op['op'] == 'dropper':
                    await dropper_session(op)
                    break
        elif fam == 'serving':
            for op in ops:
                if op['op'] == 'serving':
                    await serving_session(op)
                    break
        else:
            await start_real_server()
            n_clients = sum(1 for op in ops if op['op'] == 'client')
            if n_clients > 1:
                run.probes['multi_client'] += 1
            for op in ops:
                if op['op'] == 'client':
                    tasks.append(loop.create_task(honest_client(op)))
                elif op['op'] == 'hostile_client':
                    tasks.append(loop.create_task(hostile_client_session(op)))
                elif op['op'] == 'faulty_client':
                    tasks.append(loop.create_task(faulty_client(op)))
            if tasks:
                done, pending = await asyncio.wait(tasks, timeout=3000)
                for t in done:
                    if t.cancelled():
                        raise RuntimeError('a harness session task was cancelled')
                    if t.exception() is not None:
                        raise t.exception()
                if pending:
                    for t in pending:
                        t.cancel()
                    run.violation('C10.session_stuck', 'a client session did not end within 3000 s')
        await asyncio.sleep(0.5)
        # final sweep: nothing poisoned anywhere, server still sane
        for cid, node in sorted(state['clients'].items()):
            for h in hashes:
                if not check_poison(node, h, 'final'):
                    return
        for esc in net.data_received_escapes:
            run.probes[('server' if esc[1] == 'server' else 'client') + '_data_received_escape'] += 1
        monitor.finish()

    try:
        run.drive(driver())
    except (SimBudget, SimIdle):
        pass
    finally:
        for node in list(state['servers'].values()) + list(state['clients'].values()):
            try:
                if node.get('server'):
                    node['server'].stop_server()
                node['bm'].stop()
                be.hard_close(node['storage'])
            except Exception:  # noqa
                pass
        run.nontrivial = state['judged'] > 0
        run.finish()
        for dr in dirs:
            dr.remove()
    return run.result()
