"""C17 — DHT wire codec lossless for protocol messages, total on garbage (DESIGN.md §7 C17).

Families:
  single — a small settled network of real Nodes; one of them is bombarded with seeded datagrams
           (valid messages from the real constructors and every corruption kind), each delivery
           classified against an independent strict bencode reader + message schema.
  net    — a dht_net run (C12 scenario shapes, small) with the wire monitor on every datagram a real
           node sends and a corruption stage on the links.
"""
import asyncio

from simverif.core import env, bref
from simverif.core.run import Run, SimBudget, SimIdle
from simverif.core.rng import stream
from simverif.props import c12

ID = 'C17'
LEVEL = 'exploration'
TIERS = {'quick': {'runs': 384}, 'thorough': {'seconds': 900}}
DET_PAIRS_PER_SLOT = 1
RULE = ("family `single`: a settled 3..5 node network of real Nodes, then 300..1500 seeded datagrams delivered to "
        "the real KademliaProtocol.datagram_received of one node: valid ping/store/findNode/findValue requests, "
        "responses (contact lists 0..16, peer pages, tokens) and errors with arbitrary text built by the real "
        "constructors, plus every truncation of sampled messages, 1..3-byte mutations, random strings up to 64 KiB, "
        "deep nesting, huge length prefixes, non-canonical integers, non-dict roots, missing/extra keys, wrong field "
        "types, from ordinary and reserved source addresses; each delivery classified by an independent strict "
        "bencode reader + schema. family `net`: a C12-shaped network run with the wire monitor on every datagram a "
        "real node sends and a link corruption stage. `store_pair` histories: a sender stores validly, then sends a "
        "store of the right shape with a blob hash of the wrong type and another port. For every datagram that is "
        "not a well-formed message the failures booked during that delivery (observed per call) must name the sender "
        "only; if the handler rejected it, routing table and announcements must be unchanged. Compact addresses "
        "round-trip at port and address boundaries. One evaluation = one run; datagrams judged are counted in "
        "probes. Non-trivial = >= 50 datagrams judged; distinct = distinct event-trace digest.")
COMPONENTS = {
    'real': ['lbry.dht.serialization.bencoding', 'lbry.dht.serialization.datagram (all datagram classes, compact addresses)',
             'lbry.dht.protocol.protocol.KademliaProtocol.datagram_received and everything it calls',
             'lbry.dht.node.Node network used as context (routing tables, data stores, ping queues)'],
    'stub': ['UDP (SimDatagramNet)', 'event loop (SimLoop)'],
}
ASSUMPTIONS = [
    'the reference is the harness-owned strict bencode reader (LBRY dialect: integer dict keys) and message schema in simverif/core/bref.py',
    'datagrams the reference rejects but the lenient product decoder accepts (trailing bytes, non-canonical integers, unknown method) are only required not to raise',
    'an exception escaping on a reference-valid message (e.g. a genuine reply from a privileged source port) is recorded as a probe, not a violation: the statement covers non-well-formed datagrams',
]
EXPECTED_PROBES = ['class_a_valid', 'class_b_rejected_both', 'class_c_lenient', 'trunc_enumerated', 'mut_bytes', 'random_bytes',
                   'deep_nesting', 'roundtrip_request', 'roundtrip_response', 'roundtrip_error', 'roundtrip_error_nonascii',
                   'compact_roundtrip', 'reserved_source', 'state_compared', 'monitor_request', 'monitor_response',
                   'link_corruptions', 'valid_store_changed_state']


def gen(run_seed, tier):
    r = stream('C17.gen', run_seed)
    if r.random() < 0.7:
        n = r.choice([3, 4, 5])
        ops = []
        n_ops = r.choice([300, 600, 1000, 1500]) if tier == 'quick' else r.choice([1000, 3000, 6000])
        kinds = ['valid', 'trunc', 'mut', 'rand', 'nest', 'struct', 'trunc_all']
        w = [r.choice([1, 3]), 3, 4, r.choice([1, 2]), 1, 3, r.choice([0, 0.05])]
        for _ in range(n_ops):
            k = r.choices(kinds, w)[0]
            ops.append({'op': k, 's': r.getrandbits(48), 'src': r.randrange(12), 'to': r.randrange(n)})
        # a sender that announced earlier sends a store the handler must reject (blob hash of the right LENGTH but the
        # wrong type) with another tcp port: the earlier announcements are stored state (own stream)
        r2 = stream('C17.gen.store_pair', run_seed)
        for _ in range(r2.choice([0, 2, 5, 10])):
            ops.insert(r2.randrange(len(ops) + 1), {'op': 'store_pair', 's': r2.getrandbits(48), 'src': r2.randrange(12),
                                                    'to': r2.randrange(n)})
        return {'family': 'single', 'n': n, 'id_seed': r.getrandbits(32), 'settle': r.choice([30, 330, 620]),
                'net': {'latency': [0.001, 0.05]}, 'ops': ops}
    sc = None
    for k in range(50):
        sc = c12.gen(run_seed + k, 'quick')
        if sc['n'] <= 12 and sc['family'] in ('hit', 'faulty'):
            break
    sc['family12'] = sc['family']
    sc['family'] = 'net'
    sc['corrupt_rate'] = r.choice([0.02, 0.1, 0.3])
    sc['corrupt_seed'] = r.getrandbits(32)
    return sc


def shrink(sc):
    if sc.get('family') == 'net':
        yield from c12.shrink(sc)


# ---------------------------------------------------------------------------------------------------
# datagram construction from seeds (pure functions of the op)
# ---------------------------------------------------------------------------------------------------

def _rb(r, n):
    return r.getrandbits(8 * n).to_bytes(n, 'big') if n else b''


def _text(r):
    x = r.random()
    if x < 0.4:
        return ''.join(r.choice('abcdefghijklmnopqrstuvwxyz ()<>\':,') for _ in range(r.randint(0, 60)))
    if x < 0.8:
        alphabet = 'abc déñ☃漢字́​🙂"\\\n\t'
        return ''.join(r.choice(alphabet) for _ in range(r.randint(1, 40)))
    return ''.join(chr(r.choice([r.randint(32, 126), r.randint(0xa0, 0x2ff), r.randint(0x4e00, 0x4e80)]))
                   for _ in range(r.randint(1, 200)))


def build_valid(r, node_ids):
    """-> (bytes, kind, roundtrip-expectation) using the REAL constructors."""
    from lbry.dht.serialization.datagram import RequestDatagram, ResponseDatagram, ErrorDatagram, make_compact_address
    nid = r.choice(node_ids) if node_ids and r.random() < 0.3 else _rb(r, 48)
    rpc = _rb(r, 20)
    k = r.choice(['ping', 'store', 'findNode', 'findValue', 'resp_pong', 'resp_ok', 'resp_contacts', 'resp_value', 'error'])
    if k == 'ping':
        m = RequestDatagram.make_ping(nid, rpc)
    elif k == 'store':
        m = RequestDatagram.make_store(nid, _rb(r, 48), _rb(r, 48), r.choice([1, 80, 3333, 65535, r.randint(1, 65535)]), rpc)
    elif k == 'findNode':
        m = RequestDatagram.make_find_node(nid, _rb(r, 48), rpc)
    elif k == 'findValue':
        m = RequestDatagram.make_find_value(nid, _rb(r, 48), rpc, page=r.choice([0, 0, 1, 2, 12, 2 ** 31]))
    elif k == 'resp_pong':
        m = ResponseDatagram(1, rpc, nid, b'pong')
    elif k == 'resp_ok':
        m = ResponseDatagram(1, rpc, nid, b'OK')
    elif k == 'resp_contacts':
        cnt = r.choice([0, 1, 8, 16, r.randint(0, 16)])
        m = ResponseDatagram(1, rpc, nid, [[_rb(r, 48), f"{r.randint(1, 223)}.{r.randint(0, 255)}.{r.randint(0, 255)}.{r.randint(0, 255)}".encode(),
                                            r.randint(1, 65535)] for _ in range(cnt)])
    elif k == 'resp_value':
        key = _rb(r, 48)
        val = {b'token': _rb(r, 48), b'protocolVersion': 1}
        if r.random() < 0.7:
            val[b'contacts'] = [[_rb(r, 48), b'8.8.4.4', r.randint(1024, 65535)] for _ in range(r.choice([0, 3, 8]))]
        if r.random() < 0.8:
            val[b'p'] = r.choice([0, 1, 2, 13])
        if r.random() < 0.7:
            val[key] = [bytes(make_compact_address(_rb(r, 48), f"{r.randint(1, 223)}.{r.randint(0, 255)}.1.2", r.randint(1, 65535)))
                        for _ in range(r.choice([1, 7, 8]))]
        m = ResponseDatagram(1, rpc, nid, val)
    else:
        m = ErrorDatagram(2, rpc, nid, _text(r).encode() if r.random() < 0.5 else b"<class 'ValueError'>", _text(r).encode())
    return m, k


def corrupt(r, data, how):
    if how == 'trunc':
        return data[:r.randint(0, max(0, len(data) - 1))]
    if how == 'mut':
        b = bytearray(data)
        for _ in range(r.randint(1, 3)):
            if not b:
                break
            x = r.random()
            pos = r.randrange(len(b))
            if x < 0.6:
                b[pos] = r.getrandbits(8)
            elif x < 0.75:
                b[pos] = r.choice(b'dlie0123456789:-')
            elif x < 0.9:
                del b[pos]
            else:
                b.insert(pos, r.choice(b'dlie0123456789:-\x00\xff'))
        return bytes(b)
    if how == 'rand':
        n = r.choice([0, 1, 2, 3, 10, 100, 1400, 1401, 5000, 65507, r.randint(1, 65536)])
        if r.random() < 0.3:
            return bytes(r.choice(b'dlie0123456789:-') for _ in range(min(n, 4000)))
        return _rb(r, n)
    if how == 'nest':
        ch = r.choice([b'l', b'd', b'li0e', b'd1:a', b'di0e'])
        depth = r.choice([10, 100, 900, 1100, 3000, 20000])
        tail = r.choice([b'', b'e' * depth])
        return (ch * depth)[:65000] + tail[:500]
    if how == 'struct' and r.random() < 0.3:
        # token-level: rewrite ONE integer or length token into something Python's int() still accepts but bencode
        # does not allow (sign, blanks, newline and other whitespace, underscores, leading zeros) - 1..3-byte mutations
        import re as _re
        toks = [m for m in _re.finditer(rb'(?<![0-9])(?:i-?[0-9]+e|[0-9]+:)', data)]
        if toks:
            m = r.choice(toks)
            tok = m.group(0)
            digits = tok[1:-1] if tok[:1] == b'i' else tok[:-1]
            neg = digits[:1] == b'-'
            body = digits[1:] if neg else digits
            ws = r.choice([b'\n', b' ', b'\t', b'\r', b'\x0b', b'\x0c'])
            variants = [body + ws, ws + body, b'+' + body, b'0' + body, b'00' + body, body[:-1] + ws if len(body) > 1 else body + ws,
                        body[:1] + b'_' + body[1:] if len(body) > 1 else b'0' + body, b'-' + body if not neg else b'--' + body,
                        body + b'.0', body + b'L', b'0x' + body]
            newdigits = (b'-' if neg else b'') + r.choice(variants)
            newtok = (b'i' + newdigits + b'e') if tok[:1] == b'i' else (newdigits + b':')
            return data[:m.start()] + newtok + data[m.end():]
    # structural: re-encode a decoded message with one structural change
    try:
        root = bref.decode(data)
    except bref.RefError:
        return data + b'x'
    x = r.random()
    if x < 0.12:
        return bref.encode(r.choice([5, b'str', [root], []])) if not isinstance(root, dict) or r.random() < 0.9 else data
    if not isinstance(root, dict):
        return data + b'e'
    root = dict(root)
    if x < 0.3:
        root.pop(r.choice(sorted(root)), None)
    elif x < 0.4:
        root[r.choice([5, 6, 99, 100, -1])] = r.choice([1, b'x', [], {}])
    elif x < 0.6:
        k = r.choice(sorted(root))
        root[k] = r.choice([0, 1, 2, 3, -1, 2 ** 70, b'', b'x' * 19, b'x' * 21, b'y' * 47, b'y' * 49, [], [1], {}, {b'a': 1},
                            b'ping', b'store', b'nope', [b'k' * 48], [b'k' * 47], [{}], [[]],
                            [7] * 20, [7] * 48, [b'a'] * 20, [b'a'] * 48, {i: i for i in range(20)}, {i: i for i in range(48)},
                            [[1]] * 20, [300] * 48,
                            b'm' * 1000, b'm' * 1400, b'm' * 2000, b'\xc3\xa9' * 900, b'x' * 20000, b'y' * 60000])
    elif x < 0.7:
        return data + _rb(r, r.randint(1, 20))           # trailing bytes
    elif x < 0.8:
        return data.replace(b'i0e', b'i00e', 1) if r.random() < 0.5 else data.replace(b'i1e', b'i-0e', 1)
    elif x < 0.9:
        return data.replace(b'20:', b'99999999999:', 1) if r.random() < 0.5 else data.replace(b'48:', b'048:', 1)
    else:
        root = {str(k).encode() if isinstance(k, int) else k: v for k, v in root.items()}   # legacy str keys
    try:
        return bref.encode(root)
    except (bref.RefError, TypeError):
        return data[:-1]


SOURCES = [('8.8.8.8', 4444), ('44.3.2.1', 1024), ('44.3.2.2', 65535), ('9.9.9.9', 53), ('10.0.0.1', 4444),
           ('127.0.0.1', 4444), ('0.0.0.0', 0), ('192.168.1.1', 4444), ('255.255.255.255', 65535), ('224.0.0.1', 4444),
           ('1.1.1.1', 1), ('100.64.0.1', 4444)]


# ---------------------------------------------------------------------------------------------------
# decoder progress guard: a correct bencode reader consumes >= 1 byte per element, so the number of
# _bdecode calls for one datagram is bounded by its length.  The guard (an observation seam on the
# module attribute every recursive call goes through) turns a decoder that stops making progress
# into a deterministic event instead of a hung worker.
# ---------------------------------------------------------------------------------------------------

class DecoderStuck(BaseException):
    pass


class _Guard:
    calls = 0
    limit = 0
    installed = False


def install_decoder_guard():
    if _Guard.installed:
        return
    from lbry.dht.serialization import bencoding
    orig = bencoding._bdecode

    def counted(data, start_index=0):
        _Guard.calls += 1
        if _Guard.limit and _Guard.calls > _Guard.limit:
            _Guard.limit = 0
            raise DecoderStuck()
        return orig(data, start_index)
    bencoding._bdecode = counted
    _Guard.installed = True


def arm_guard(nbytes):
    _Guard.calls = 0
    _Guard.limit = 4 * nbytes + 256


# ---------------------------------------------------------------------------------------------------
# the per-delivery judge
# ---------------------------------------------------------------------------------------------------

def snapshot(proto):
    rt = tuple(sorted((p.node_id, p.address, p.udp_port) for p in proto.routing_table.get_peers()))
    bk = tuple((b.range_min, b.range_max) for b in proto.routing_table.buckets)
    # through the store's public interface only (its internal layout is not part of any statement)
    ds = tuple(sorted((k, tuple(sorted((p.node_id or b'', p.address, p.tcp_port or 0)
                                       for p in proto.data_store.filter_expired_peers(k))))
                      for k in list(proto.data_store.keys())))
    qa = tuple(sorted((p.node_id or b'', p.address, p.udp_port or 0) for p in proto._to_add))
    qr = tuple(sorted((p.node_id or b'', p.address, p.udp_port or 0) for p in proto._to_remove))
    pq = tuple(sorted((p.node_id or b'', p.address, p.udp_port or 0) for p in proto.ping_queue._pending_contacts))
    return rt, bk, ds, qa, qr, pq


REPLY_PAYLOAD_ERRORS = {'bad contact triple', 'response dict keys', 'no token', 'bad contacts', 'bad page count',
                        'bad compact addresses', 'bad response type'}
SNAP_NAMES = ('routing table', 'bucket ranges', 'data store', 'add queue', 'remove queue', 'ping queue')
# reference errors that mean "these bytes are not bencode at all" -> site class used in violations
ENCODING_LEVEL = {
    'trailing bytes': 'trailing', 'truncated': 'truncated', 'unterminated list': 'truncated', 'unterminated dict': 'truncated',
    'unterminated integer': 'truncated', 'string runs past end': 'truncated', 'empty integer': 'token', 'bad integer': 'token',
    'leading zero': 'token', 'negative zero': 'token', 'bad length': 'token', 'no colon': 'token', 'bad type byte': 'token',
    'empty': 'truncated',
}


def judge_delivery(run, net, ep, data, src, how):
    """Deliver `data` to the real protocol behind endpoint `ep` and check it per its class."""
    from lbry.dht.serialization.datagram import decode_datagram, RequestDatagram, ResponseDatagram, ErrorDatagram
    proto = ep.protocol
    enc_error = None
    ref_error = None
    try:
        ref = bref.parse_message(data)
    except bref.RefError as e0:
        ref = None
        ref_error = str(e0)
        try:
            bref.decode(data)
        except bref.RefError as e:
            enc_error = str(e)
    arm_guard(len(data))
    try:
        prod = decode_datagram(data)
        prod_exc = None
    except DecoderStuck:
        run.violation('C17.decoder_stuck', f'the product decoder stopped making progress on a {how} datagram of '
                      f'{len(data)} bytes (more than {4 * len(data) + 256} element reads): it never returns, the '
                      f'datagram handler blocks the event loop; datagram {data[:300]!r}')
        return False
    except Exception as e:  # noqa
        prod, prod_exc = None, e
    before = snapshot(proto) if ref is None else None
    now = proto.loop.time()
    # which failures THIS delivery books (several datagrams can share one virtual instant, so the time stamp of the
    # record does not tell): an observation wrapper on the instance for the duration of the call
    # a reply (envelope type 1) to a request this node has pending: if the datagram is not a well-formed message it is
    # no answer - the sender must not be booked as having replied nor be queued for the routing table
    pending_reply = False
    if ref is None and prod is not None and isinstance(prod, ResponseDatagram):
        entry = proto.sent_messages.get(prod.rpc_id)
        # ... where "not well-formed" is a malformed PAYLOAD (an odd envelope - extra top-level keys, legacy key spelling -
        # around a proper payload is tolerated by the product on purpose and stays in the lenient class)
        pending_reply = entry is not None and entry[0].address == src[0] and not entry[1].done() and \
            ref_error in REPLY_PAYLOAD_ERRORS
    replied_before = proto.peer_manager._last_replied.get((src[0], src[1])) if pending_reply else None
    booked = []
    pm = proto.peer_manager
    booked_orig = pm.report_failure

    def booked_spy(address, udp_port):
        booked.append((address, udp_port))
        return booked_orig(address, udp_port)
    pm.report_failure = booked_spy
    arm_guard(len(data))
    try:
        exc = net.deliver_guarded(ep, data, src)
    finally:
        del pm.report_failure
    _Guard.limit = 0
    if ref is None and exc is None:
        # "the SENDER's failure recorded": whatever the handler decides about a datagram that is not a well-formed
        # message, it must not book a failure against anybody but the address the datagram came from (a node id is
        # public, anyone can put a known contact's id into a datagram)
        for key_ in booked:
            if key_ != (src[0], src[1]):
                run.violation('C17.failure_misattributed', f'a {how} datagram from {src} that is not a well-formed message '
                              f'made the node record a failure for {key_}, which sent nothing; datagram {data[:120]!r}',
                              decoded=prod is not None)
                return False
    if ref is not None:
        run.probes['class_a_valid'] += 1
        if prod is None:
            run.violation('C17.valid_rejected', f'the product cannot decode a well-formed {ref["kind"]}: '
                          f'{type(prod_exc).__name__}: {prod_exc}; datagram {data[:120]!r}', msg=ref['kind'],
                          exc=type(prod_exc).__name__)
            return False
        ok = prod.rpc_id == ref['rpc_id'] and prod.node_id == ref['node_id']
        if ref['kind'] == 'request':
            ok = ok and isinstance(prod, RequestDatagram) and prod.method == ref['method'] and prod.args == ref['args']
        elif ref['kind'] == 'response':
            ok = ok and isinstance(prod, ResponseDatagram) and prod.response == ref['response']
        else:
            ok = ok and isinstance(prod, ErrorDatagram) and prod.exception_type.encode() == ref['exception_type'] \
                and prod.response.encode() == ref['response']
        if not ok:
            run.violation('C17.decode_mismatch', f'product and reference read a {ref["kind"]} differently: {data[:160]!r}',
                          msg=ref['kind'])
            return False
        if exc is not None:
            run.probes['escape_on_wellformed_' + type(exc).__name__] += 1
        return True
    if exc is not None:
        run.violation('C17.escape', f'{type(exc).__name__} escaped datagram_received for a {how} datagram of '
                      f'{len(data)} bytes from {src}: {str(exc)[:120]}; datagram {data[:80]!r}',
                      exc=type(exc).__name__, decoded=prod is not None)
        return False
    if pending_reply:
        run.probes['malformed_reply_to_pending_request'] += 1
        after_q = snapshot(proto)
        if proto.peer_manager._last_replied.get((src[0], src[1])) != replied_before or after_q[3] != before[3]:
            run.violation('C17.malformed_reply_accepted', f'a {how} reply from {src} to a pending request is not a well-formed '
                          f'message ({ref_error}) and was still accepted: the sender was booked as having replied'
                          f'{" and queued for the routing table" if after_q[3] != before[3] else ""}; datagram {data[:160]!r}',
                          what='reply')
            return False
    if prod is None:
        run.probes['class_b_rejected_both'] += 1
        run.probes['state_compared'] += 1
        after = snapshot(proto)
        if after != before:
            which = [SNAP_NAMES[i] for i in range(len(before)) if before[i] != after[i]]
            run.violation('C17.state_changed', f'an undecodable {how} datagram changed {which}: {data[:120]!r}',
                          what=which[0])
            return False
        if (src[0], src[1]) not in booked:
            run.violation('C17.failure_not_recorded', f'an undecodable {how} datagram from {src} was dropped without '
                          f'recording a failure for the sender (product decoder raised {type(prod_exc).__name__})',
                          exc=type(prod_exc).__name__)
            return False
    elif enc_error in ENCODING_LEVEL:
        # (c1) not even bencode (truncated, trailing bytes, malformed integer / length tokens): the statement names
        # truncations and mutations explicitly - such a datagram must be dropped, not handled as the message it
        # resembles
        run.probes['class_c1_malformed_encoding'] += 1
        run.probes['state_compared'] += 1
        after = snapshot(proto)
        what = ENCODING_LEVEL[enc_error]
        if after[:3] != before[:3]:
            which = [SNAP_NAMES[i] for i in range(3) if before[i] != after[i]]
            run.violation('C17.malformed_changed_state', f'a {how} datagram that is not valid bencode ({enc_error}) was handled '
                          f'as a {type(prod).__name__} and changed {which}: {data[:120]!r}', what=what)
            return False
        if (src[0], src[1]) not in booked:
            run.violation('C17.malformed_not_dropped', f'a {how} datagram that is not valid bencode ({enc_error}) was handled as '
                          f'a {type(prod).__name__} instead of being dropped with a failure recorded for {src}: {data[-40:]!r}',
                          what=what)
            return False
    else:
        # (c2) valid bencode that is not a protocol message by the reference schema (unknown method, extra keys,
        # odd field types, unsorted keys, nesting beyond the reference limit): only "no exception escapes"
        run.probes['class_c_lenient'] += 1
        if (src[0], src[1]) in booked:
            # the handler itself rejected it (failure booked for the sender): then it must have been DROPPED - the
            # routing table and the stored announcements are as before
            run.probes['class_c_rejected_by_handler'] += 1
            after = snapshot(proto)
            if after[:3] != before[:3]:
                which = [SNAP_NAMES[i] for i in range(3) if before[i] != after[i]]
                run.violation('C17.rejected_changed_state', f'a {how} datagram from {src} was rejected by the handler (failure '
                              f'recorded) and still changed {which}: {data[:160]!r}', what=which[0])
                return False
    return True


def check_roundtrip(run, m, kind):
    """Encode with the real datagram class; the reference must read the same message and re-encode identically."""
    from lbry.dht.serialization.datagram import decode_datagram
    try:
        data = m.bencode()
    except Exception as e:  # noqa
        run.violation('C17.encode_raised', f'bencode() of a {kind} raised {type(e).__name__}: {e}', msg=kind)
        return None
    nonascii = kind == 'error' and not (m.exception_type + m.response).isascii()
    run.probes['roundtrip_' + ('request' if kind in ('ping', 'store', 'findNode', 'findValue') else
                               'error' if kind == 'error' else 'response')] += 1
    if nonascii:
        run.probes['roundtrip_error_nonascii'] += 1
    try:
        ref = bref.parse_message(data)
    except bref.RefError as e:
        run.violation('C17.encode_malformed', f'the datagram encoded for a {kind} is not readable by an independent '
                      f'bencode implementation ({e}): {data[:160]!r}', msg='error' if kind == 'error' else kind,
                      nonascii=nonascii)
        return None
    try:
        back = decode_datagram(data)
    except Exception as e:  # noqa
        run.violation('C17.own_datagram_undecodable', f'{kind} does not decode back: {type(e).__name__}: {e}', msg=kind,
                      exc=type(e).__name__)
        return None
    same = back.rpc_id == m.rpc_id and back.node_id == m.node_id and type(back) is type(m)
    for attr in ('method', 'args', 'response', 'exception_type'):
        if hasattr(m, attr):
            same = same and getattr(back, attr) == getattr(m, attr)
    if not same:
        run.violation('C17.roundtrip_mismatch', f'{kind} decodes back to a different message', msg=kind)
        return None
    if bref.encode(bref.decode(data)) != data:
        run.violation('C17.reencode_mismatch', f'independent re-encoding of a {kind} differs', msg=kind)
        return None
    return data


def execute(scenario, keep_trace=False):
    env.import_lbry()
    install_decoder_guard()
    run = Run(scenario, keep_trace)
    if scenario.get('family') == 'net':
        _execute_net(scenario, run)
    else:
        _execute_single(scenario, run)
    run.finish()
    return run.result()


def _execute_net(scenario, run):
    cr = run.rng('link.corrupt', scenario.get('corrupt_seed', 0))
    rate = scenario.get('corrupt_rate', 0.1)
    judged = [0]

    def factory(world):
        def on_receive(ep, src, data, tag):
            if tag is None:
                return False
            judged[0] += 1
            judge_delivery(run, world.net, ep, data, src, tag)
            return True
        world.net.on_receive = on_receive

        def stage(src, dst, data, ep):
            if dst not in world.index_of:
                return None
            if cr.random() >= rate:
                # the original goes through the judge too (class a, cheap) now and then
                return [(data, 'genuine')] if cr.random() < 0.2 else None
            how = cr.choice(['trunc', 'mut', 'mut', 'struct', 'rand', 'nest'])
            bad = corrupt(cr, data, how)
            run.faults['link_' + how] += 1
            run.probes['link_corruptions'] += 1
            # the original still arrives (after the corrupted copy), so the protocol keeps making progress
            return [(bad, how), (data, None)]
        return stage

    sc = dict(scenario, family=scenario.get('family12', 'hit'))
    c12.run_dht(sc, run, monitor=True, corrupt_factory=factory)
    # C12-kind findings are not this property's business (C12's own check reports them)
    run.violations[:] = [v for v in run.violations if v['kind'].startswith('C17.')]
    run.nontrivial = judged[0] >= 50


def _execute_single(scenario, run):
    env.import_lbry()
    import random as _random
    from simverif.core.dhtenv import DhtWorld
    from lbry.dht.serialization.datagram import make_compact_address, decode_compact_address
    loop = run.new_loop(max_steps=5_000_000, max_vtime=100_000)
    world = DhtWorld(run, loop, scenario.get('net'), monitor=True)
    n = scenario.get('n', 3)
    idr = run.rng('node.ids', scenario.get('id_seed', 0))
    ids = [idr.getrandbits(384).to_bytes(48, 'big') for _ in range(n)]
    judged = [0]

    async def driver():
        for i in range(n):
            world.add_node(i, ids[i], bootstrap=(i == 0))
            world.start_node(i, [0] if i else [])
        await asyncio.sleep(scenario.get('settle', 330))
        try:
            await asyncio.wait_for(world.nodes[n - 1].announce_blob(ids[0].hex()), 60)
        except Exception:  # noqa
            pass
        for op in scenario['ops']:
            if run.violations:
                return
            r = _random.Random(op['s'])
            to = op.get('to', 0) % n
            ep = world.net.endpoints.get(world.addr_of[to])
            if ep is None:
                continue
            src = SOURCES[op.get('src', 0) % len(SOURCES)]
            if src[0] in ('10.0.0.1', '127.0.0.1', '0.0.0.0', '192.168.1.1', '255.255.255.255', '224.0.0.1'):
                run.probes['reserved_source'] += 1
            m, kind = build_valid(r, ids)
            data = check_roundtrip(run, m, kind)
            if data is None:
                return
            if r.random() < 0.2:
                nid, ip = _rb(r, 48), r.choice([
                    f"{r.randint(0, 255)}.{r.randint(0, 255)}.{r.randint(0, 255)}.{r.randint(0, 255)}",
                    f"{r.randint(1, 223)}.{r.randint(0, 255)}.{r.randint(0, 255)}.{r.randint(0, 255)}",
                    '255.255.255.255', '0.0.0.0', '1.0.0.0', '0.0.0.1', '127.0.0.1', '10.255.0.255'])
                port = r.choice([r.randint(1, 65535), r.randint(1, 65535), r.randint(1, 65535), 1, 2, 255, 256, 1023,
                                 1024, 32767, 32768, 65534, 65535])
                run.probes['compact_roundtrip'] += 1
                if port in (1, 65535):
                    run.probes['compact_port_boundary'] += 1
                try:
                    c = bytes(make_compact_address(nid, ip, port))
                    back = tuple(decode_compact_address(c))
                except Exception as e:  # noqa
                    run.violation('C17.compact_mismatch', f'compact address of {ip}:{port} does not round-trip: '
                                  f'{type(e).__name__}: {e}', step='raise')
                    return
                if back != (nid, ip, port) or bref.compact_decode(c) != (nid, ip, port) \
                        or bref.compact_encode(nid, ip, port) != c:
                    run.violation('C17.compact_mismatch', f'compact address of {ip}:{port} does not round-trip',
                                  step='value')
                    return
            how = op['op']
            if how == 'store_pair':
                from lbry.dht.serialization.datagram import RequestDatagram
                nid = r.choice(ids) if r.random() < 0.3 else _rb(r, 48)
                port1, port2 = r.sample([1024, 3333, 4444, 6666, 50000, 65534], 2)
                first = RequestDatagram.make_store(nid, _rb(r, 48), _rb(r, 48), port1, _rb(r, 20)).bencode()
                judged[0] += 1
                if not judge_delivery(run, world.net, ep, first, src, 'valid'):
                    return
                held = [k for k in ep.protocol.data_store.keys()
                        if any((p.address, p.tcp_port) == (src[0], port1) for p in ep.protocol.data_store.filter_expired_peers(k))]
                if held:
                    run.probes['store_pair_first_stored'] += 1
                root = bref.decode(RequestDatagram.make_store(nid, _rb(r, 48), _rb(r, 48), port2, _rb(r, 20)).bencode())
                args = list(root[4])
                bad_token = r.random() < 0.4
                if bad_token:
                    # a store whose TOKEN is not a 48-byte string (make_store refuses to build one): not a well-formed
                    # store, it must not store (same sender, so the earlier announcement keeps its port too)
                    args[1] = r.choice([5, 0, [b't'] * 48, [7] * 48, b'x', b't' * 47, b't' * 49, b'', {}])
                else:
                    args[0] = r.choice([[7] * 48, [b'a'] * 48, [[1]] * 48, {i: i for i in range(48)}])
                root[4] = args
                run.faults['structural'] += 1
                run.probes['store_pair_bad_store'] += 1
                judged[0] += 1
                ds_before = snapshot(ep.protocol)[2]
                # the node must be past the 5 minute grace period in which any token is tolerated
                old_enough = loop.time() - ep.protocol.started_listening_time >= 300
                if not judge_delivery(run, world.net, ep, bref.encode(root), src, 'struct'):
                    return
                if bad_token and old_enough:
                    run.probes['store_pair_bad_token'] += 1
                    if snapshot(ep.protocol)[2] != ds_before:
                        run.violation('C17.malformed_store_executed', f'a store from {src} whose token is {args[1]!r:.40} (not a '
                                      f'48-byte string) changed the stored announcements', what='token')
                        return
                run.ev(how, len(held))
                continue
            if how == 'valid':
                before = snapshot(ep.protocol)
                ok = judge_delivery(run, world.net, ep, data, src, 'valid')
                if ok and kind == 'store' and snapshot(ep.protocol)[2] != before[2]:
                    run.probes['valid_store_changed_state'] += 1
                judged[0] += 1
            elif how == 'trunc_all':
                run.probes['trunc_enumerated'] += 1
                for cut in range(len(data)):
                    judged[0] += 1
                    run.faults['truncation'] += 1
                    if not judge_delivery(run, world.net, ep, data[:cut], src, 'trunc'):
                        return
                    await asyncio.sleep(0)
            else:
                bad = corrupt(r, data, how)
                run.faults[{'trunc': 'truncation', 'mut': 'mutation', 'rand': 'random_bytes', 'nest': 'deep_nesting',
                            'struct': 'structural'}[how]] += 1
                run.probes[{'mut': 'mut_bytes', 'rand': 'random_bytes', 'nest': 'deep_nesting'}.get(how, 'other_' + how)] += 1
                judged[0] += 1
                if not judge_delivery(run, world.net, ep, bad, src, how):
                    return
            await asyncio.sleep(0.05 if judged[0] % 64 == 0 else 0)
            run.ev(how, kind, len(data))
        await asyncio.sleep(5)

    try:
        run.drive(driver())
    except (SimBudget, SimIdle):
        pass
    finally:
        world.stop_all()
    run.nontrivial = judged[0] >= 50
