"""C02 — stream publish/decrypt round trip and descriptor commitments (DESIGN.md §7 C02, partly).

The publish -> store -> serve -> fetch -> parse -> decrypt pipeline crosses two parties, disk and the
executor; that part is decided by simulation: a publisher node runs the real
StreamDescriptor.create_stream, a real BlobServer serves the blobs over simulated TCP (seeded
re-chunking, latencies, executor delays), a downloader node runs the real StreamDownloader
(load_descriptor + read_blob in descriptor order).  A third node serves, under correctly re-hashed
sd blobs, descriptors with exactly one hash-committed field altered.  The file-name clause is a pure
string function: it is monitored on every name that occurs (and evaluated directly for names a file
system cannot hold), which the manifest states honestly.
"""
import asyncio
import binascii
import hashlib
import json
import os

from simverif.core import env
from simverif.core.run import Run, SimBudget, SimIdle
from simverif.core.rng import stream

ID = 'C02'
LEVEL = 'exploration'
TIERS = {'quick': {'runs': 2400}, 'thorough': {'seconds': 900}}
DET_PAIRS_PER_SLOT = 2
RULE = ("one run = one file (size swarmed over 1, 15, 16, 17, AES-block and blob boundaries 2 MiB-2 / 2 MiB-1 / 2 MiB / "
        "2*(2 MiB-1)+5, random sizes; seeded key and IV sequence or the product's own; file name from an alphabet with "
        "backslash, control characters, dots, spaces, reserved DOS names, unicode) published with the real "
        "create_stream on node P, served by the real BlobServer over simulated TCP with seeded re-chunking / latency / "
        "executor delays, fetched and decrypted in descriptor order by the real StreamDownloader on node D; plus 1..4 "
        "tamperings of a hash-committed descriptor field (names, key, any blob's hash / number / IV / length, order, "
        "terminator, JSON; also tamperings that keep the unseparated concatenation the stream hash covers: characters "
        "moved across the iv/length boundary, numbers turned into strings) each served under a correctly re-hashed sd "
        "blob by node H. Names include DEL and C1 controls (control character = Unicode category Cc). 1.5 % of runs "
        "publish two identical chunks under a repeating IV sequence. Non-trivial = round trip "
        "completed over the network or >= 1 tampering judged; distinct = distinct event-trace digest.")
COMPONENTS = {
    'real': ['lbry.stream.descriptor.StreamDescriptor (create_stream, make_sd_blob, from_stream_descriptor_blob, hashes, sanitize_file_name)',
             'lbry.blob.blob_file.BlobFile (create_from_unencrypted, decrypt)', 'lbry.blob.blob_manager.BlobManager',
             'lbry.extras.daemon.storage.SQLiteStorage', 'lbry.blob_exchange server/client/BlobDownloader', 'lbry.stream.downloader.StreamDownloader (load_descriptor, read_blob)'],
    'stub': ['TCP (SimStreamNet)', 'DHT / tracker discovery (peer queue filled by the harness; StreamDownloader.start is not used)',
             'wallet / claims (absent)', 'event loop and executors (SimLoop)'],
}
ASSUMPTIONS = [
    'C02 is quantified over inputs; only the two-party / disk / executor pipeline is decided by simulation, the file-name sanitiser is a pure function monitored on the generated names',
    'tamperings leave stream_hash stale (an attacker who recomputes it has made a different, valid stream)',
    'independent recomputation uses hashlib SHA-384 and AES-CBC/PKCS7 from the `cryptography` primitives directly, not lbry helpers',
]
EXPECTED_PROBES = ['roundtrip_local', 'roundtrip_network', 'multi_blob', 'exact_blob_boundary', 'one_byte_file', 'tamper_refused',
                   'tamper_refused_InvalidStreamDescriptorError', 'names_checked', 'odd_name_published', 'own_key_iv', 'product_key_iv',
                   'stream_hash_checked', 'sd_hash_checked', 'raw_name_descriptor_loaded', 'recovered_file_name_checked']

MAX_BLOB = 2 * 1024 * 1024
TAMPERS = ['stream_name', 'key', 'suggested_file_name', 'blob_hash', 'blob_num', 'iv', 'length', 'swap', 'drop_terminator',
           'terminator_hash', 'terminator_length', 'truncate_json', 'not_json', 'stream_hash', 'drop_blob', 'dup_blob', 'json_list',
           'missing_key', 'stream_hash_blank', 'stream_hash_blank_plus', 'stream_hash_other_valid', 'field_type',
           # structural inconsistencies with the stream hash RECOMPUTED over the altered content: numbering,
           # terminator and zero-length clauses must hold on their own, not only through the stale hash
           'renumber_rehash', 'renumber_terminator_rehash', 'terminator_hash_rehash', 'terminator_length_rehash',
           'drop_terminator_rehash', 'zero_length_blob_rehash', 'swap_rehash', 'dup_blob_rehash',
           # the stream hash covers blob_hash + str(num) + iv + str(length) WITHOUT separators: tamperings that move
           # characters across a field boundary, or change a type whose str() is the same, keep the hash valid
           'shift_length_into_iv', 'shift_iv_into_length', 'length_as_string', 'num_as_string',
           'shift_length_into_iv', 'length_as_string']
NAME_ALPHABET = ['a', 'B', '7', ' ', '.', '..', '\\', ':', '*', '?', '"', '<', '>', '|', '\x01', '\x1f', '\t', '\n', 'é', '漢', '🙂',
                 'CON', 'NUL', 'COM1', 'LPT9', '.txt', '.mp4', '-', '_', '%', '\x7f', '́', '\x80', '\x85', '\x9b', '\x9f']


def gen(run_seed, tier):
    r = stream('C02.gen', run_seed)
    big = r.random() < (0.05 if tier == 'quick' else 0.2)
    if big:
        size = r.choice([MAX_BLOB - 2, MAX_BLOB - 1, MAX_BLOB, MAX_BLOB + 1, 2 * (MAX_BLOB - 1), 2 * (MAX_BLOB - 1) + 5,
                         r.randint(MAX_BLOB, 3 * MAX_BLOB)])
    else:
        size = r.choice([1, 1, 2, 15, 16, 17, 31, 32, 33, 255, 4096, 65535, 65536, r.randint(1, 3000), r.randint(1, 200_000)])
    n = r.choice([1, 2, 3, 5, 8, 20])
    name = ''.join(r.choice(NAME_ALPHABET) for _ in range(n))
    if r.random() < 0.2:
        name = r.choice(['CON', 'NUL.txt', 'COM1', '...', ' ', 'a.', '. .', 'x' * 200 + '.bin', 'normal.mp4', 'LPT1.', 'aux'])
    return {'family': 'e2e', 'size': size, 'content_seed': r.getrandbits(32), 'name': name,
            'own_key': r.random() < 0.6, 'key_seed': r.getrandbits(32),
            'net': {'latency': [0.0005, r.choice([0.002, 0.02])], 'chunk_mode': r.choice(['mixed', 'mixed', 'whole']),
                    'connect_latency': [0.001, 0.02]},
            'exec_delay': r.choice([0.0005, 0.002]),
            'via_network': r.random() < (0.8 if not big else 0.5),
            'ops': [{'op': 'tamper', 'what': r.choice(TAMPERS), 'idx': r.random(), 'seed': r.getrandbits(16)}
                    for _ in range(r.choice([0, 1, 2, 4]))]}


_gen_base = gen


def gen(run_seed, tier):   # noqa: F811
    sc = _gen_base(run_seed, tier)
    # "all keys / IV sequences": an IV sequence that repeats, over a file whose chunks repeat too, yields the same
    # (key, iv, chunk) twice - the second blob is byte-identical to the first and already there (own stream)
    r2 = stream('C02.gen.iv_repeat', run_seed)
    if r2.random() < 0.015:
        sc.update(size=2 * (MAX_BLOB - 1) + r2.choice([0, 0, 5]), own_key=True, iv_repeat=True, via_network=False, ops=[])
    # a publisher that does not sanitise: the raw suggested name reaches every place a downloading node saves under
    r3 = stream('C02.gen.raw_name', run_seed)
    if r3.random() < 0.15 and not sc.get('iv_repeat'):
        sc['raw_name'] = ''.join(r3.choice(NAME_ALPHABET + ['/', '../', '\x1b[2J', '\r', '\x00']) for _ in range(r3.choice([2, 5, 12])))
    return sc


def shrink(sc):
    if sc['size'] > 64:
        yield dict(sc, size=sc['size'] // 2)
        yield dict(sc, size=17)
    if len(sc['name']) > 1:
        yield dict(sc, name=sc['name'][:len(sc['name']) // 2])
        yield dict(sc, name='a.txt')
    if sc['net']['chunk_mode'] != 'whole':
        yield dict(sc, net=dict(sc['net'], chunk_mode='whole'))
    if sc.get('via_network'):
        yield dict(sc, via_network=False)


def fs_name(name):
    """What a file system can hold as a base name: no '/', no NUL, not empty / '.' / '..', <= 255 bytes."""
    n = name.replace('/', '_').replace('\x00', '_')
    while len(n.encode('utf-8', 'surrogatepass')) > 240:
        n = n[:-1]
    if n in ('', '.', '..'):
        n = n + '_'
    return n


def bad_saving_name(n):
    # control character = Unicode category Cc: U+0000-001F, DEL and the C1 range U+0080-009F (U+009B is CSI, the one
    # character form of ESC [ that terminals honour)
    import unicodedata
    return any(c in n for c in '/\\\x00') or any(unicodedata.category(c) == 'Cc' for c in n)


def ref_stream_hash(d):
    """Independent recomputation of the stream hash from the descriptor's JSON fields."""
    bl = hashlib.sha384()
    for b in d['blobs']:
        h = hashlib.sha384()
        if b['length'] != 0:
            h.update(b['blob_hash'].encode())
        h.update(str(b['blob_num']).encode())
        h.update(b['iv'].encode())
        h.update(str(b['length']).encode())
        bl.update(h.digest())
    s = hashlib.sha384()
    s.update(d['stream_name'].encode())
    s.update(d['key'].encode())
    s.update(d['suggested_file_name'].encode())
    s.update(bl.digest())
    return s.hexdigest()


def ref_decrypt(data, key, iv):
    from cryptography.hazmat.primitives.ciphers import Cipher, algorithms, modes
    from cryptography.hazmat.primitives import padding
    dec = Cipher(algorithms.AES(key), modes.CBC(iv)).decryptor()
    raw = dec.update(data) + dec.finalize()
    un = padding.PKCS7(128).unpadder()
    return un.update(raw) + un.finalize()


def tamper(d, op, r):
    """-> bytes of a descriptor with exactly one committed field altered (stream_hash left stale), or None."""
    d = json.loads(json.dumps(d))
    what = op['what']
    data = d['blobs'][:-1]
    i = min(len(data) - 1, int(op.get('idx', 0) * len(data))) if data else 0

    def flip_hex(s):
        c = s[0]
        return ('0' if c != '0' else '1') + s[1:]
    if what == 'stream_name':
        d['stream_name'] = binascii.hexlify(b'other name').decode()
    elif what == 'key':
        d['key'] = flip_hex(d['key'])
    elif what == 'suggested_file_name':
        d['suggested_file_name'] = binascii.hexlify(r.choice([b'../../etc/passwd', b'evil.exe', b'a/b', b'x\x00y'])).decode()
    elif what == 'blob_hash':
        data[i]['blob_hash'] = flip_hex(data[i]['blob_hash'])
    elif what == 'blob_num':
        data[i]['blob_num'] = data[i]['blob_num'] + r.choice([1, 2, -1])
    elif what == 'iv':
        d['blobs'][min(len(d['blobs']) - 1, int(op.get('idx', 0) * len(d['blobs'])))]['iv'] = flip_hex(data[i]['iv'])
    elif what == 'length':
        data[i]['length'] = data[i]['length'] + r.choice([16, -16, 1, 1000])
        if data[i]['length'] <= 0:
            data[i]['length'] = 16
    elif what == 'swap':
        if len(data) < 2:
            return None
        d['blobs'][0], d['blobs'][1] = d['blobs'][1], d['blobs'][0]
    elif what == 'drop_terminator':
        d['blobs'] = d['blobs'][:-1]
    elif what == 'terminator_hash':
        d['blobs'][-1]['blob_hash'] = data[0]['blob_hash']
    elif what == 'terminator_length':
        d['blobs'][-1]['length'] = 16
    elif what == 'truncate_json':
        b = json.dumps(d, sort_keys=True).encode()
        return b[:max(1, int(len(b) * (0.2 + 0.7 * op.get('idx', 0.5))))]
    elif what == 'not_json':
        return r.choice([b'\x00\x01\x02 not json', b'{{{{', b'<html></html>', b'\xff\xfe\xfd'])
    elif what == 'stream_hash':
        d['stream_hash'] = flip_hex(d['stream_hash'])
    elif what.endswith('_rehash'):
        if what == 'renumber_rehash':
            data[i]['blob_num'] = data[i]['blob_num'] + r.choice([1, 2, 7, -1])
        elif what == 'renumber_terminator_rehash':
            d['blobs'][-1]['blob_num'] = d['blobs'][-1]['blob_num'] + r.choice([1, 2, 41, -1])
        elif what == 'terminator_hash_rehash':
            d['blobs'][-1]['blob_hash'] = data[0]['blob_hash']
        elif what == 'terminator_length_rehash':
            d['blobs'][-1]['length'] = r.choice([16, 1, 2097152])
            d['blobs'][-1]['blob_hash'] = data[0]['blob_hash']      # a non-zero length blob is hashed with its hash
        elif what == 'drop_terminator_rehash':
            d['blobs'] = d['blobs'][:-1]
        elif what == 'zero_length_blob_rehash':
            data[i]['length'] = 0
        elif what == 'swap_rehash':
            if len(data) < 2:
                return None
            d['blobs'][0], d['blobs'][1] = d['blobs'][1], d['blobs'][0]
        elif what == 'dup_blob_rehash':
            d['blobs'].insert(1, dict(d['blobs'][0]))
        try:
            d['stream_hash'] = ref_stream_hash(d)
        except Exception:  # noqa
            return None
    elif what == 'shift_length_into_iv':
        ln = str(data[i]['length'])
        if len(ln) < 2:
            return None
        k = r.randint(1, len(ln) - 1)
        if ln[k] == '0':
            return None                         # the remainder must still print as itself
        data[i]['iv'] = data[i]['iv'] + ln[:k]
        data[i]['length'] = int(ln[k:])
    elif what == 'shift_iv_into_length':
        iv = data[i]['iv']
        if iv[-1] not in '123456789':
            return None
        data[i]['iv'] = iv[:-1]
        data[i]['length'] = int(iv[-1] + str(data[i]['length']))
    elif what == 'length_as_string':
        data[i]['length'] = str(data[i]['length'])
    elif what == 'num_as_string':
        data[i]['blob_num'] = str(data[i]['blob_num'])
    elif what in ('stream_hash_blank', 'stream_hash_blank_plus'):
        # a stream hash that is not a hash at all (empty / null / falsy / wrong type) is inconsistent too,
        # alone or together with one altered committed field
        d['stream_hash'] = r.choice(['', None, 0, False, [], {}, ' ', '0'])
        if what == 'stream_hash_blank_plus':
            return tamper(d, dict(op, what=r.choice(['key', 'stream_name', 'blob_hash', 'iv', 'length', 'suggested_file_name'])), r)
    elif what == 'stream_hash_other_valid':
        # the (valid) stream hash of a different descriptor
        other = json.loads(json.dumps(d))
        other['key'] = flip_hex(other['key'])
        d['stream_hash'] = ref_stream_hash(other)
    elif what == 'field_type':
        k = r.choice(['key', 'stream_name', 'suggested_file_name', 'blobs'])
        d[k] = r.choice([None, 5, [], {}, '', True]) if k != 'blobs' else r.choice([None, {}, 'x', [[]], [5], [d['blobs'][-1], d['blobs'][-1]]])
    elif what == 'drop_blob':
        if len(data) < 2:
            return None
        del d['blobs'][0]
    elif what == 'dup_blob':
        d['blobs'].insert(1, dict(d['blobs'][0]))
    elif what == 'json_list':
        return json.dumps([d]).encode()
    elif what == 'missing_key':
        d.pop(r.choice(['key', 'stream_name', 'blobs', 'suggested_file_name', 'stream_hash']), None)
    return json.dumps(d, sort_keys=True).encode()


class _FakeSocketModule:
    AF_INET = 2
    SOCK_STREAM = 1

    class _S:
        def __enter__(self):
            return self

        def __exit__(self, *a):
            return False

        def connect_ex(self, addr):
            return 111

    def socket(self, *a, **k):
        return self._S()


def execute(scenario, keep_trace=False):
    env.import_lbry()
    import random as _random
    from simverif.core import blobenv as be
    from simverif.core.net import SimStreamNet
    import lbry.blob_exchange.server as srv_mod
    from lbry.blob_exchange.server import BlobServer
    from lbry.blob.blob_manager import BlobManager
    from lbry.dht.peer import make_kademlia_peer
    from lbry.stream.descriptor import StreamDescriptor, sanitize_file_name
    from lbry.stream.downloader import StreamDownloader
    from lbry.error import InvalidStreamDescriptorError

    srv_mod.socket = _FakeSocketModule()
    run = Run(scenario, keep_trace)
    loop = run.new_loop(max_steps=3_000_000, max_vtime=5000, exec_delay=(0.0, float(scenario.get('exec_delay', 0.002))))
    net_cfg = dict(scenario['net'])
    net_cfg['latency'] = tuple(net_cfg['latency'])
    net_cfg['connect_latency'] = tuple(net_cfg['connect_latency'])
    SimStreamNet(run, loop, net_cfg)
    dirs = []
    nodes = []
    content = _random.Random(f"c02:{scenario['content_seed']}").randbytes(scenario['size'])
    if scenario.get('iv_repeat'):
        content = (content[:MAX_BLOB - 1] * 3)[:scenario['size']]
        run.probes['iv_repeat_identical_chunks'] += 1
    judged = [0]

    async def make_node(name):
        dr = be.Dirs(prefix=f'sv-c02-{name}-')
        dirs.append(dr)
        conf = be.make_config(dr, peer_connect_timeout=3.0, blob_download_timeout=30.0)
        storage = await be.open_storage(loop, conf, dr)
        bm = BlobManager(loop, dr.blobs, storage, conf)
        await bm.setup()
        node = {'dirs': dr, 'conf': conf, 'storage': storage, 'bm': bm}
        nodes.append(node)
        return node

    def check_name(n, where):
        run.probes['names_checked'] += 1
        if bad_saving_name(n):
            run.violation('C02.unsafe_file_name', f'{where}: suggested file name {n!r} contains a separator, NUL or control character',
                          where=where)
            return False
        return True

    async def serve(node, ip):
        server = BlobServer(loop, node['bm'], 'bQEaw42GXsgCAGio1nxFncJSyRmnztSCjP')
        server.start_server(3333, ip)
        await server.started_listening.wait()
        node['server'] = server

    async def driver():
        # ---- file-name clause, monitored on the generated name (pure function of the name) --------------
        raw = scenario['name']
        for candidate in (raw, raw + '/', '/' + raw, raw.replace('a', '/'), raw + '\x00', 'dir/' + raw + '.txt'):
            try:
                s = sanitize_file_name(candidate)
            except Exception as e:  # noqa
                run.violation('C02.exception', f'sanitize_file_name({candidate!r}) raised {type(e).__name__}: {e}', where='sanitize')
                return
            if not check_name(s, 'sanitize'):
                return
        # ---- publish on P --------------------------------------------------------------------------
        P = await make_node('P')
        name = fs_name(raw)
        if name != 'a.txt' and any(c in name for c in '\\:*?"<>|') or any(ord(c) < 0x20 for c in name):
            run.probes['odd_name_published'] += 1
        path = os.path.join(P['dirs'].downloads, name)
        with open(path, 'wb') as f:
            f.write(content)
        kwargs = {}
        if scenario.get('own_key'):
            kr = _random.Random(f"c02-key:{scenario['key_seed']}")
            kwargs['key'] = kr.randbytes(16)

            def ivs():
                fixed = kr.randbytes(16)
                while True:
                    yield fixed if scenario.get('iv_repeat') else kr.randbytes(16)
            kwargs['iv_generator'] = ivs()
            run.probes['own_key_iv'] += 1
        else:
            run.probes['product_key_iv'] += 1
        try:
            desc = await StreamDescriptor.create_stream(loop, P['bm'].blob_dir, path, blob_completed_callback=P['bm'].blob_completed,
                                                        **kwargs)
        except Exception as e:  # noqa
            run.violation('C02.exception', f'create_stream raised {type(e).__name__}: {e}', where='create_stream')
            return
        await asyncio.sleep(0.2)
        with open(os.path.join(P['bm'].blob_dir, desc.sd_hash), 'rb') as f:
            sd_bytes = f.read()
        run.probes['sd_hash_checked'] += 1
        if hashlib.sha384(sd_bytes).hexdigest() != desc.sd_hash:
            run.violation('C02.sd_hash', 'sd_hash is not the SHA-384 of the descriptor blob')
            return
        d = json.loads(sd_bytes)
        run.probes['stream_hash_checked'] += 1
        if ref_stream_hash(d) != d['stream_hash'] or d['stream_hash'] != desc.stream_hash:
            run.violation('C02.stream_hash', 'stream_hash is not the commitment over the descriptor content '
                          f'(independent {ref_stream_hash(d)[:12]}, descriptor {d["stream_hash"][:12]})')
            return
        if binascii.unhexlify(d['stream_name']).decode() != name:
            run.violation('C02.descriptor_field', 'stream_name in the descriptor is not the published file name')
            return
        sfn = binascii.unhexlify(d['suggested_file_name']).decode()
        if not check_name(sfn, 'descriptor'):
            return
        n_expected = (len(content) + (MAX_BLOB - 1) - 1) // (MAX_BLOB - 1)
        data_blobs = d['blobs'][:-1]
        term = d['blobs'][-1]
        if len(data_blobs) != n_expected or term['length'] != 0 or 'blob_hash' in term or \
                [b['blob_num'] for b in d['blobs']] != list(range(len(d['blobs']))):
            run.violation('C02.blob_layout', f'{len(data_blobs)} data blobs for {len(content)} bytes (expected {n_expected}), '
                          f'terminator {term}')
            return
        if n_expected > 1:
            run.probes['multi_blob'] += 1
        if len(content) % (MAX_BLOB - 1) in (0, 1, MAX_BLOB - 2):
            run.probes['exact_blob_boundary'] += 1
        if len(content) == 1:
            run.probes['one_byte_file'] += 1
        key = binascii.unhexlify(d['key'])
        plain = b''
        ivs_seen = set()
        for b in data_blobs:
            with open(os.path.join(P['bm'].blob_dir, b['blob_hash']), 'rb') as f:
                enc = f.read()
            if len(enc) > MAX_BLOB or len(enc) != b['length'] or hashlib.sha384(enc).hexdigest() != b['blob_hash']:
                run.violation('C02.blob_commitment', f'data blob {b["blob_num"]}: {len(enc)} bytes on disk, descriptor length '
                              f'{b["length"]}, named by SHA-384: {hashlib.sha384(enc).hexdigest() == b["blob_hash"]}',
                              too_big=len(enc) > MAX_BLOB)
                return
            ivs_seen.add(b['iv'])
            try:
                plain += ref_decrypt(enc, key, binascii.unhexlify(b['iv']))
            except Exception as e:  # noqa
                run.violation('C02.roundtrip', f'independent decryption of blob {b["blob_num"]} failed: {type(e).__name__}', where='local')
                return
        if plain != content:
            run.violation('C02.roundtrip', f'independent decryption of the published blobs gives {len(plain)} bytes != the '
                          f'{len(content)} byte file', where='local')
            return
        if len(ivs_seen) != len(data_blobs) and not scenario.get('iv_repeat'):   # (a repeating sequence the harness supplied itself)
            run.violation('C02.iv_reuse', 'two data blobs of one stream share an IV')
            return
        run.probes['roundtrip_local'] += 1
        run.ev('published', len(content), len(data_blobs), desc.sd_hash[:12])
        # ---- fetch + decrypt on D over the network ------------------------------------------------------
        if scenario.get('via_network'):
            await serve(P, '4.4.4.4')
            D = await make_node('D')
            dl = StreamDownloader(loop, D['conf'], D['bm'], desc.sd_hash)
            dl.peer_queue.put_nowait([make_kademlia_peer(None, '4.4.4.4', tcp_port=3333)])
            judged[0] += 1
            try:
                await asyncio.wait_for(dl.load_descriptor(), 120)
                got = b''
                for info in dl.descriptor.blobs[:-1]:
                    got += await asyncio.wait_for(dl.read_blob(info), 300)
            except Exception as e:  # noqa
                run.violation('C02.roundtrip', f'fetching and decrypting the stream on another node failed: {type(e).__name__}: {e}',
                              where='network', exc=type(e).__name__)
                return
            finally:
                dl.stop()
            if got != content:
                run.violation('C02.roundtrip', f'decrypting the fetched blobs in descriptor order gives {len(got)} bytes != the '
                              f'{len(content)} byte file', where='network')
                return
            if dl.descriptor.sd_hash != desc.sd_hash or dl.descriptor.stream_hash != desc.stream_hash or \
                    dl.descriptor.key != desc.key or dl.descriptor.stream_name != name:
                run.violation('C02.descriptor_field', 'the descriptor loaded on the downloader differs from the published one')
                return
            if not check_name(dl.descriptor.suggested_file_name, 'downloaded'):
                return
            run.probes['roundtrip_network'] += 1
            run.ev('fetched', len(got))
        # ---- tampered descriptors served by H -----------------------------------------------------------
        tampers = [op for op in scenario['ops'] if op.get('op') == 'tamper']
        if tampers:
            Hn = await make_node('H')
            await serve(Hn, '5.5.5.5')
            for k, op in enumerate(tampers):
                tr = _random.Random(f"c02-tamper:{op.get('seed', 0)}:{op['what']}")
                tb = tamper(d, op, tr)
                if tb is None or tb == sd_bytes:
                    continue
                blob, _ = await be.download_blob(Hn['bm'], tb, chunks=1, peer=('7.7.7.7', 3333))
                await asyncio.sleep(0.05)
                T = await make_node(f'T{k}')
                dl = StreamDownloader(loop, T['conf'], T['bm'], blob.blob_hash)
                dl.peer_queue.put_nowait([make_kademlia_peer(None, '5.5.5.5', tcp_port=3333)])
                judged[0] += 1
                run.faults['tamper_' + op['what']] += 1
                try:
                    await asyncio.wait_for(dl.load_descriptor(), 120)
                except Exception as e:  # noqa
                    run.probes['tamper_refused'] += 1
                    if isinstance(e, InvalidStreamDescriptorError):
                        run.probes['tamper_refused_InvalidStreamDescriptorError'] += 1
                    else:
                        run.probes['tamper_refused_' + type(e).__name__] += 1
                    run.ev('tamper', op['what'], type(e).__name__)
                else:
                    run.violation('C02.tampered_descriptor_accepted', f'a descriptor with `{op["what"]}` altered ('
                                  f'{"stream hash recomputed" if op["what"].endswith("_rehash") else "stale stream hash"}) was loaded',
                                  what=op['what'])
                    return
                finally:
                    dl.stop()
        # ---- a publisher that writes the suggested name RAW (the descriptor is consistent: it loads) ------------------
        if scenario.get('raw_name'):
            raw = scenario['raw_name']
            d2 = json.loads(json.dumps(d))
            d2['suggested_file_name'] = binascii.hexlify(raw.encode('utf-8', 'surrogatepass')).decode()
            d2['stream_hash'] = ref_stream_hash(d2)
            Hr = await make_node('Hr')
            await serve(Hr, '6.6.6.6')
            blob, _ = await be.download_blob(Hr['bm'], json.dumps(d2, sort_keys=True).encode(), chunks=1, peer=('7.7.7.9', 3333))
            await asyncio.sleep(0.05)
            R = await make_node('R')
            dl = StreamDownloader(loop, R['conf'], R['bm'], blob.blob_hash)
            dl.peer_queue.put_nowait([make_kademlia_peer(None, '6.6.6.6', tcp_port=3333)])
            judged[0] += 1
            try:
                await asyncio.wait_for(dl.load_descriptor(), 120)
            except Exception as e:  # noqa  (refusing such a descriptor outright would be fine too)
                run.probes['raw_name_descriptor_refused'] += 1
            else:
                run.probes['raw_name_descriptor_loaded'] += 1
                # every name this node would save under: the one the downloader suggests ...
                from lbry.stream.descriptor import sanitize_file_name as _san
                if not check_name(_san(dl.descriptor.suggested_file_name), 'raw_sanitized'):
                    return
                # ... and the one start-up recovery writes into the file table (sd blob file missing at a later start)
                try:
                    await R['storage'].recover_streams([(dl.descriptor, R['bm'].get_blob(blob.blob_hash), None)],
                                                       R['dirs'].downloads)
                    rows = await R['storage'].db.execute_fetchall("select file_name from file")
                except Exception as e:  # noqa
                    run.violation('C02.exception', f'recover_streams raised {type(e).__name__}: {e}', where='recover')
                    return
                for (fn,) in rows:
                    if fn:
                        run.probes['recovered_file_name_checked'] += 1
                        if not check_name(binascii.unhexlify(fn).decode('utf-8', 'replace'), 'recovered'):
                            return
            finally:
                dl.stop()

    try:
        run.drive(driver())
    except (SimBudget, SimIdle):
        pass
    finally:
        for node in nodes:
            try:
                if node.get('server'):
                    node['server'].stop_server()
                node['bm'].stop()
                be.hard_close(node['storage'])
            except Exception:  # noqa
                pass
        run.nontrivial = judged[0] > 0
        run.finish()
        for dr in dirs:
            dr.remove()
    return run.result()
