"""Orchestrator: `./check <property|setup|selftest> [--tier quick|thorough] [--replay file]`.

Exit codes: 0 held on everything explored; 1 violation not listed in known_findings.json;
2 harness error (import failure, nondeterminism, worker death, nothing executed)."""
import argparse
import importlib
import json
import os
import shutil
import subprocess
import sys
import tempfile
import time

ROOT = os.path.dirname(os.path.dirname(os.path.abspath(__file__)))
PY = sys.executable
HASHSEEDS = (0, 1, 2)
CLAIMED = ['C01', 'C02', 'C03', 'C07', 'C08', 'C09', 'C10', 'C11', 'C12', 'C13', 'C14', 'C17', 'C18', 'C19']


def worker_cmd(mode, pid, hashseed, extra):
    env = dict(os.environ)
    env.update(PYTHONHASHSEED=str(hashseed), PROTOCOL_BUFFERS_PYTHON_IMPLEMENTATION='python',
               PYTHONDONTWRITEBYTECODE='1', PYTHONPATH=ROOT)
    cmd = [PY, '-B', '-c', 'import simverif.core.worker as w; w.main()', mode, pid] + extra
    return cmd, env


def run_worker(mode, pid, hashseed, extra, timeout, tmpdir=None):
    cmd, env = worker_cmd(mode, pid, hashseed, extra)
    if tmpdir:
        env['TMPDIR'] = tmpdir
    return subprocess.run(cmd, env=env, cwd=ROOT, timeout=timeout, capture_output=True, text=True)


def load_known():
    path = os.path.join(ROOT, 'known_findings.json')
    if not os.path.exists(path):
        return []
    return json.load(open(path)).get('findings', [])


def match_known(violation, pid, known):
    for k in known:
        if k.get('status') != 'known' or k.get('property') != pid:
            continue
        if k.get('kind') != violation['kind']:
            continue
        site = violation.get('site', {})
        if all(site.get(a) == b for a, b in (k.get('match') or {}).items()):
            return k
    return None


def prop_module(pid):
    sys.path.insert(0, ROOT)
    from simverif.core import env
    env.install()
    return importlib.import_module(f'simverif.props.{pid.lower()}')


def check(pid, tier, args):
    t0 = time.time()
    prop = prop_module(pid)
    base_seed = int(os.environ.get('VERIF_SEED', args.seed if args.seed is not None else 0))
    cfg = dict(getattr(prop, 'TIERS')[tier])
    if args.runs:
        cfg = {'runs': args.runs}
    if args.seconds:
        cfg = {'seconds': args.seconds}
    if tier == 'thorough' and os.environ.get('VERIF_THOROUGH_S') and 'seconds' in cfg:
        cfg['seconds'] = float(os.environ['VERIF_THOROUGH_S'])
    nworkers = args.workers or int(os.environ.get('VERIF_WORKERS', os.cpu_count() or 4))
    nworkers = max(len(HASHSEEDS), nworkers)
    det = cfg.get('det', getattr(prop, 'DET_PAIRS_PER_SLOT', 2))
    scratch = tempfile.mkdtemp(prefix=f'simverif-{pid}-', dir='/dev/shm' if os.path.isdir('/dev/shm') else None)
    procs = []
    try:
        per_slot = [nworkers // 3 + (1 if s < nworkers % 3 else 0) for s in range(3)]
        if 'runs' in cfg:
            # do not start more workers than there are runs
            per_slot = [max(1, min(n, (cfg['runs'] + 2) // 3)) for n in per_slot]
        per_slot = [max(n, 2) if det else n for n in per_slot]
        for slot, nsub in enumerate(per_slot):
            for sub in range(nsub):
                out = os.path.join(scratch, f'w{slot}_{sub}.json')
                extra = ['--tier', tier, '--base-seed', str(base_seed), '--slot', str(slot), '--sub', str(sub),
                         '--nsub', str(nsub), '--det', str(det), '--out', out]
                if 'runs' in cfg:
                    extra += ['--limit-index', str(cfg['runs'])]
                if 'seconds' in cfg:
                    extra += ['--seconds', str(cfg['seconds'])]
                cmd, env = worker_cmd('batch', pid, HASHSEEDS[slot], extra)
                env['TMPDIR'] = scratch
                log = open(os.path.join(scratch, f'w{slot}_{sub}.log'), 'w')
                procs.append((slot, sub, out, subprocess.Popen(cmd, env=env, cwd=ROOT, stdout=log, stderr=log), log))
        hard = cfg.get('seconds', 0) + cfg.get('wall_limit', 1500)
        dead = []
        aggs = []
        for slot, sub, out, p, log in procs:
            try:
                rc = p.wait(timeout=max(5, hard - (time.time() - t0)))
            except subprocess.TimeoutExpired:
                p.kill()
                rc = -9
            log.close()
            if rc != 0 or not os.path.exists(out):
                tail = open(log.name).read()[-3000:]
                dead.append((slot, sub, rc, tail))
            else:
                a = json.load(open(out))
                a['_slot'], a['_sub'] = slot, sub
                aggs.append(a)
        return finish_check(pid, tier, prop, base_seed, cfg, aggs, dead, t0, nworkers, scratch, args)
    finally:
        for *_x, p, log in procs:
            if p.poll() is None:
                p.kill()
        shutil.rmtree(scratch, ignore_errors=True)


def merge(dst, src):
    for k, v in src.items():
        dst[k] = dst.get(k, 0) + v


def finish_check(pid, tier, prop, base_seed, cfg, aggs, dead, t0, nworkers, scratch, args):
    known = load_known()
    runs = sum(a['runs'] for a in aggs)
    outcomes, faults, probes, families = {}, {}, {}, {}
    digests = set()
    sim_time = steps = exec_jobs = events = 0
    samples, harness_errors, violating = [], [], []
    vclasses = {}
    slowest = []
    det_map = {}
    det_mismatch = []
    det_pairs = 0
    for a in aggs:
        merge(outcomes, a['outcomes']); merge(faults, a['faults']); merge(probes, a['probes'])
        merge(families, a['families']); merge(vclasses, a.get('violation_classes', {}))
        digests.update(a['digests_nontrivial'])
        sim_time += a['sim_time']; steps += a['steps']; exec_jobs += a['exec_jobs']; events += a['events']
        samples += a['samples']
        harness_errors += a['harness_errors']
        slowest += [tuple(x) for x in a.get('slowest', [])]
        violating += a['violating']
        for idx, d in a['digest_by_index'].items():
            if idx in det_map:
                det_pairs += 1
                if det_map[idx] != d:
                    det_mismatch.append((idx, det_map[idx], d))
            else:
                det_map[idx] = d
    status = 0
    lines = []
    if dead:
        status = 2
        for slot, sub, rc, tail in dead:
            lines.append(f'HARNESS-ERROR worker slot={slot} sub={sub} rc={rc}\n{tail}')
    if harness_errors:
        status = 2
        for h in harness_errors[:3]:
            lines.append(f"HARNESS-ERROR run index={h['index']}\n{h['error']}")
    if det_mismatch:
        status = 2
        lines.append(f'HARNESS-ERROR nondeterminism: {det_mismatch[:5]}')
    if runs == 0:
        status = 2
        lines.append('HARNESS-ERROR no run executed')
    budget_frac = outcomes.get('budget', 0) / max(1, runs)
    if budget_frac > getattr(prop, 'MAX_BUDGET_FRACTION', 0.02):
        status = 2
        lines.append(f'HARNESS-ERROR {outcomes.get("budget", 0)}/{runs} runs exhausted their budget')

    # ---- violations: classify, minimise, verify replay ------------------------------------------
    n_known = n_new = 0
    reported_known = set()
    by_class = {}
    for item in sorted(violating, key=lambda it: (it['violation']['kind'], it['scenario']['index'])):
        v = item['violation']
        key = json.dumps([v['kind'], v.get('site', {})], sort_keys=True, default=str)
        by_class.setdefault(key, item)
    new_items = []
    for key, item in by_class.items():
        k = match_known(item['violation'], pid, known)
        if k is not None:
            n_known += 1
            if k['id'] not in reported_known:
                reported_known.add(k['id'])
                lines.append(f"KNOWN-FINDING: property={pid} {k['description']}")
        else:
            new_items.append(item)
    # one replay per violation kind (plus up to 2 more distinct sites) keeps minimisation bounded
    # every listed (status=known) finding of this property is named on every run, reached or not
    for k in known:
        if k.get('status') == 'known' and k.get('property') == pid and k['id'] not in reported_known:
            lines.append(f"KNOWN-FINDING: property={pid} {k['description']} (not reached by this run)")
    # one replay per violation class (kind + site), at most 3 per kind and 8 in total: keeps minimisation bounded
    seen_kinds = {}
    to_report = []
    for item in new_items:
        kd = item['violation']['kind']
        seen_kinds[kd] = seen_kinds.get(kd, 0) + 1
        if seen_kinds[kd] <= 3 and len(to_report) < 8:
            to_report.append(item)
    for item in to_report:
        path = minimise_and_write(pid, item, scratch, args)
        n_new += 1
        lines.append(f"VIOLATION property={pid} replay={path}")
        lines.append(f"  kind={item['violation']['kind']} detail={item['violation']['detail'][:300]}")
    if new_items:
        # confirmed violations (each with a replay that reproduces in a fresh process) decide the exit code even if
        # some other runs of the batch ended in a harness error: the HARNESS-ERROR lines are printed all the same
        status = 1

    wall = time.time() - t0
    probes_zero = [p for p in getattr(prop, 'EXPECTED_PROBES', []) if not probes.get(p)]
    evidence = {
        'property_id': pid, 'tier': tier, 'seed': base_seed, 'level': getattr(prop, 'LEVEL', 'exploration'),
        'coverage': {
            'evaluations': runs,
            'distinct_nontrivial': len(digests),
            'rule': prop.RULE,
            'samples': samples[:3],
            'families': families,
            'runs_per_hour': int(runs / wall * 3600) if wall > 0 else 0,
            'seeds': {'base_seed': base_seed, 'run_seed': 'H("run", base_seed, property, index)',
                      'indices': f'0..{runs - 1}' if 'runs' in cfg else f'time-budgeted, {runs} indices'},
            'sim_time_covered_s': round(sim_time, 1),
            'loop_steps': steps, 'executor_jobs': exec_jobs, 'trace_events': events,
            'fault_counts': dict(sorted(faults.items())),
            'probes': dict(sorted(probes.items())),
            'probes_zero': probes_zero,
            'outcomes': outcomes,
            'violation_classes': {k: v for k, v in sorted(vclasses.items())[:30]},
            'known_findings_matched': sorted(reported_known),
            'components': getattr(prop, 'COMPONENTS', {}),
            'determinism_pairs_checked': det_pairs,
            'determinism_mismatches': len(det_mismatch),
            'hashseeds': list(HASHSEEDS), 'workers': nworkers,
            'slowest_runs_wall_s_index_family': sorted(slowest, reverse=True)[:5],
        },
        'assumptions': getattr(prop, 'ASSUMPTIONS', []),
        'wall_s': round(wall, 2),
        'violations': n_new,
    }
    extra_cov = getattr(prop, 'extra_coverage', None)
    if extra_cov:
        evidence['coverage'].update(extra_cov(evidence['coverage']))
    # evidence describes runs against /repo itself; trials against a scratch copy (VERIF_REPO) go elsewhere
    scratch_target = os.path.realpath(os.environ.get('VERIF_REPO', '/repo')) != os.path.realpath('/repo')
    ev_dir = os.path.join(ROOT, 'evidence-scratch' if scratch_target else 'evidence')
    evidence['coverage']['source_tree'] = os.path.realpath(os.environ.get('VERIF_REPO', '/repo'))
    os.makedirs(ev_dir, exist_ok=True)
    with open(os.path.join(ev_dir, f'{pid}.json'), 'w') as f:
        json.dump(evidence, f, indent=1, sort_keys=True, default=str)
    for ln in lines:
        print(ln)
    print(f"{pid} {tier}: runs={runs} distinct_nontrivial={len(digests)} outcomes={outcomes} "
          f"known={n_known} new_violation_classes={len(new_items)} det_pairs={det_pairs} "
          f"wall={wall:.1f}s status={status}")
    return status


def minimise_and_write(pid, item, scratch, args):
    sc = item['scenario']
    kind = item['violation']['kind']
    os.makedirs(os.path.join(ROOT, 'replays'), exist_ok=True)
    safe_kind = ''.join(c if c.isalnum() or c in '._-' else '_' for c in kind)
    path = os.path.join(ROOT, 'replays', f"{pid}-{safe_kind}-{sc.get('index', 'x')}.json")
    orig = os.path.join(scratch, 'orig.json')
    json.dump(sc, open(orig, 'w'))
    final = {'scenario': sc, 'violation': item['violation'], 'minimized': False}
    if not args.no_minimize:
        out = os.path.join(scratch, 'min.json')
        try:
            r = run_worker('minimize', pid, sc.get('hashseed', 0),
                           ['--scenario', orig, '--kind', kind, '--out', out, '--budget', str(args.min_budget)],
                           timeout=900, tmpdir=scratch)
            if r.returncode == 0 and os.path.exists(out):
                m = json.load(open(out))
                if m.get('minimized'):
                    # fresh-process confirmation of the minimised scenario
                    cand = os.path.join(scratch, 'cand.json')
                    json.dump(m['scenario'], open(cand, 'w'))
                    res = replay_file(pid, cand, scratch)
                    if res and any(v['kind'] == kind for v in res['violations']):
                        vv = [v for v in res['violations'] if v['kind'] == kind][0]
                        final = {'scenario': m['scenario'], 'violation': vv, 'minimized': True,
                                 'minimizer': {k: m[k] for k in ('tried', 'ops_before', 'ops_after') if k in m},
                                 'digest': res['digest']}
        except subprocess.TimeoutExpired:
            pass
    with open(path, 'w') as f:
        json.dump(final, f, indent=1, default=str)
    return path


def replay_file(pid, path, scratch, trace=False):
    sc = json.load(open(path))
    sc = sc.get('scenario', sc)
    out = os.path.join(scratch, 'replay_out.json')
    if os.path.exists(out):
        os.remove(out)
    r = run_worker('replay', pid, sc.get('hashseed', 0),
                   ['--scenario', path, '--out', out] + (['--trace'] if trace else []), timeout=900, tmpdir=scratch)
    if r.returncode != 0 or not os.path.exists(out):
        sys.stderr.write(r.stdout[-2000:] + r.stderr[-4000:])
        return None
    return json.load(open(out))


def do_replay(pid, path):
    scratch = tempfile.mkdtemp(prefix='simverif-replay-', dir='/dev/shm' if os.path.isdir('/dev/shm') else None)
    try:
        res = replay_file(pid, path, scratch)
        if res is None:
            print('HARNESS-ERROR replay worker failed')
            return 2
        if res['outcome'] == 'harness_error':
            print('HARNESS-ERROR', res.get('error'))
            return 2
        known = load_known()
        status = 0
        for v in res['violations']:
            k = match_known(v, pid, known)
            if k:
                print(f"KNOWN-FINDING: property={pid} {k['description']}")
            else:
                status = 1
                print(f"VIOLATION property={pid} replay={path}")
                print(f"  kind={v['kind']} site={v.get('site')} detail={v['detail'][:500]}")
        print(f"replay digest={res['digest']} outcome={res['outcome']} steps={res['steps']} sim_time={res['sim_time']}")
        return status
    finally:
        shutil.rmtree(scratch, ignore_errors=True)


def setup():
    r = subprocess.run([PY, '-B', '-c',
                        'import sys; sys.path.insert(0, %r)\n'
                        'from simverif.core import env; env.import_lbry()\n'
                        'import hypothesis, lbry.blob.blob_manager, lbry.dht.node, lbry.stream.descriptor, '
                        'lbry.blob_exchange.server, lbry.extras.daemon.storage, lbry.blob.disk_space_manager\n'
                        'print("imports ok", lbry.__file__)' % ROOT],
                       env=dict(os.environ, PYTHONHASHSEED='0', PROTOCOL_BUFFERS_PYTHON_IMPLEMENTATION='python',
                                PYTHONDONTWRITEBYTECODE='1'), cwd=ROOT)
    return 0 if r.returncode == 0 else 2


def main(argv=None):
    ap = argparse.ArgumentParser(prog='check')
    ap.add_argument('target')
    ap.add_argument('--tier', default=os.environ.get('VERIF_TIER', 'quick'), choices=['quick', 'thorough'])
    ap.add_argument('--replay')
    ap.add_argument('--runs', type=int)
    ap.add_argument('--seconds', type=float)
    ap.add_argument('--workers', type=int)
    ap.add_argument('--seed', type=int)
    ap.add_argument('--no-minimize', action='store_true')
    ap.add_argument('--min-budget', type=int, default=250)
    args = ap.parse_args(argv)
    tgt = args.target
    if tgt == 'setup':
        sys.exit(setup())
    if tgt == 'selftest':
        from simverif import selftest
        sys.exit(selftest.main(args))
    pid = tgt.upper()
    if pid not in CLAIMED:
        print(f'unknown or unclaimed property {pid}')
        sys.exit(2)
    if args.replay:
        sys.exit(do_replay(pid, args.replay))
    sys.exit(check(pid, args.tier, args))


if __name__ == '__main__':
    main()
