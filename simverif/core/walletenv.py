"""wallet_funding harness shared by C03 and C14 (DESIGN.md §7 C03 / C14).

SUT (all real): Ledger (sub-classed only for the per-network constants), Database(':memory:') through
AIOSQLite under the simulated executor, Headers(':memory:'), Wallet, Account (HD / single-key, real
derivation and signing), Transaction.create/pay/claim_create/support/purchase, CoinSelector and the
sqlite chooser.  Stub: network (never connected, never called), thread/process pools (SimLoop).

What lives here
* independent size arithmetic and an independent parser of the raw transaction bytes (the oracles
  never use `tx.size`, `get_base_fee`, `Output.get_fee`, `Input.size`),
* the reference model: UTXO multiset with spent / held state, address histories,
* funding and "broadcast" exactly as the sync path records transactions
  (`insert_transaction` / `save_transaction_io`, then `ensure_address_gap`),
* observation wrappers on the *instance* methods `ledger.get_spendable_utxos` and
  `ledger.release_outputs` (observation only: arguments, results and instants),
* synchronous read-only SQL on the writer connection for `is_reserved` (every executor job runs
  inline to completion, so between two loop handles no sqlite transaction is open).
"""
import asyncio
import contextvars
import os

from . import env

# which build a piece of product code is running for: a context variable, so that tasks the product
# itself spawns on behalf of a build (e.g. a shielded inner selection task) are attributed to it too
CURRENT_BUILD = contextvars.ContextVar('simverif_current_build', default=None)
_IN_SELECT = contextvars.ContextVar('simverif_in_select', default=False)

DUST = 1000                      # lbry.wallet.constants.DUST (restated: the oracle must not follow a mutated tree)
BASE_SIZE = 10                   # 4 version + 1 input count + 1 output count + 4 locktime (<= 252 ins/outs)
SIG_PLACEHOLDER = 72
PUBKEY_LEN = 33
P2PKH_SCRIPT_LEN = 25
CHANGE_TEMPLATE_OUT = 46         # product sizes its change output with a 32-byte placeholder hash
STRATEGIES = [None, 'standard', 'prefer_confirmed', 'only_confirmed', 'sqlite',
              'branch_and_bound', 'closest_match', 'random_draw']
MAX_IO = 250                     # domain of the quantifier


# ---------------------------------------------------------------------------------------------------
# independent size arithmetic
# ---------------------------------------------------------------------------------------------------

def varint_len(n):
    if n < 253:
        return 1
    if n <= 0xffff:
        return 3
    if n <= 0xffffffff:
        return 5
    return 9


def input_size(script_len):
    return 32 + 4 + varint_len(script_len) + script_len + 4


def output_size(script_len):
    return 8 + varint_len(script_len) + script_len


PLACEHOLDER_INPUT = input_size(1 + SIG_PLACEHOLDER + 1 + PUBKEY_LEN)   # 148
CHANGE_OUT = output_size(P2PKH_SCRIPT_LEN)                              # 34


def spend_fee(rate):
    return PLACEHOLDER_INPUT * rate


def cost_of_change(rate):
    return (BASE_SIZE + CHANGE_TEMPLATE_OUT) * rate


def chooser_margin(rate):
    return CHANGE_TEMPLATE_OUT * rate


def _read_varint(b, o):
    v = b[o]
    if v < 253:
        return v, o + 1
    if v == 253:
        return int.from_bytes(b[o + 1:o + 3], 'little'), o + 3
    if v == 254:
        return int.from_bytes(b[o + 1:o + 5], 'little'), o + 5
    return int.from_bytes(b[o + 1:o + 9], 'little'), o + 9


def parse_tx(raw):
    """Independent deserialiser: -> {'size', 'ins': [{'op','script_len','size'}], 'outs': [{'amount','script','size'}]}"""
    raw = bytes(raw)
    o = 4
    n_in, o = _read_varint(raw, o)
    ins = []
    for _ in range(n_in):
        start = o
        txid = raw[o:o + 32][::-1].hex()
        nout = int.from_bytes(raw[o + 32:o + 36], 'little')
        o += 36
        slen, o = _read_varint(raw, o)
        o += slen + 4
        ins.append({'op': f'{txid}:{nout}', 'script_len': slen, 'size': o - start})
    n_out, o = _read_varint(raw, o)
    outs = []
    for _ in range(n_out):
        start = o
        amount = int.from_bytes(raw[o:o + 8], 'little')
        o += 8
        slen, o = _read_varint(raw, o)
        script = raw[o:o + slen]
        o += slen
        outs.append({'amount': amount, 'script': script, 'size': o - start})
    o += 4
    if o != len(raw):
        raise ValueError(f'raw transaction has {len(raw) - o} trailing/missing bytes')
    return {'size': len(raw), 'ins': ins, 'outs': outs}


def p2pkh_hash(script):
    """hash160 if `script` is exactly DUP HASH160 <20> EQUALVERIFY CHECKSIG, else None."""
    if len(script) == 25 and script[:3] == b'\x76\xa9\x14' and script[23:] == b'\x88\xac':
        return bytes(script[3:23])
    return None


def exc_where(exc):
    """Function name of the innermost traceback frame that lies in the lbry package."""
    root = os.path.realpath(env.REPO) + os.sep + 'lbry' + os.sep
    name = '?'
    tb = exc.__traceback__
    while tb is not None:
        code = tb.tb_frame.f_code
        if os.path.realpath(code.co_filename).startswith(root):
            name = code.co_name
        tb = tb.tb_next
    return name


# ---------------------------------------------------------------------------------------------------
# reference model
# ---------------------------------------------------------------------------------------------------

class Utxo:
    __slots__ = ('op', 'amount', 'acct', 'address', 'height', 'verified', 'spent', 'held_by', 'txo', 'seq',
                 'purchase')

    def __init__(self, op, amount, acct, address, height, verified, txo, seq):
        self.op, self.amount, self.acct, self.address = op, amount, acct, address
        self.height, self.verified, self.txo, self.seq = height, verified, txo, seq
        self.spent = False
        self.held_by = None
        self.purchase = False      # a received purchase payment (the save path files it as txo_type 'purchase')

    @property
    def confirmed(self):
        return self.height > 0


class Build:
    """One call of Transaction.create and what was observed about it."""

    def __init__(self, bid, spec):
        self.bid = bid
        self.spec = spec
        self.funding = []
        self.change = 0
        self.pre = []            # Utxo records handed in as pre-chosen inputs
        self.requested = []      # (amount, script bytes, name_fee) of the requested outputs, in order
        self.calls = []          # observed selection calls {'amount','waited','returned','exc','avail'}
        self.touched = set()     # outpoints pre-chosen or returned by a selection call of this build
        self.tx = None
        self.parsed = None
        self.exc = None
        self.parse_error = None
        self.state = 'new'       # new | running | held | released | broadcast | failed
        self.started = None
        self.finished = None
        self.kind = (spec or {}).get('kind', 'create')    # create | fund_everything | fund_amount
        self.end = None          # how it ended, for attribution: released | broadcast | failed_insufficient |
        #                          failed_other | broadcast_refused | broadcast_refused_released | cancelled
        self.task = None
        self.jobs = 0            # executor jobs submitted on behalf of this build (counted by the property)
        self.cancel_expected = False
        self.cancelled = False
        self.cancel_during_reserve = False


class WalletSim:
    def __init__(self, run, scenario, loop):
        self.run, self.sc, self.loop = run, scenario, loop
        self.rate = int(scenario.get('fee_per_byte', 50))
        self.name_rate = int(scenario.get('fee_per_name_char', 0))
        self.strategy = scenario.get('strategy')
        if self.strategy not in STRATEGIES:
            self.strategy = None
        self.n_accounts = 2 if scenario.get('n_accounts', 1) == 2 else 1
        self.utxos = {}          # op -> Utxo
        self.history = {}        # address -> history string as sync would store it
        self.addr_info = {}      # address -> (acct index, chain, n)
        self.builds = {}
        self.task_build = {}
        self.fund_seq = 0
        self.utxo_seq = 0
        self.on_select_return = None     # fn(build, call, outpoints)   (C14 held map)
        self.on_release_call = None      # fn(build, outpoints)
        self.on_reserve_return = None    # fn(build, outpoints): ledger.reserve_outputs called outside a selection
        self.in_flight = 0
        self.net_log = []                # (build id, 'accepted' | 'refused') of the stub network

    # ---- construction ---------------------------------------------------------------------------
    async def open(self):
        import lbry.wallet.database as dbm
        import lbry.wallet.ledger as lm
        from .loop import _InertExecutor
        dbm.ThreadPoolExecutor = _InertExecutor
        dbm.ReaderExecutorClass = _InertExecutor
        base_selector = getattr(lm, '_simverif_base_selector', None)
        if base_selector is None:
            base_selector = lm._simverif_base_selector = lm.CoinSelector
        seed_rng = self.run.rng('coinselector.seed')

        class SeededSelector(base_selector):
            # Random(None) seeds itself from the kernel; the run owns that decision instead.
            def __init__(self, target, cost_of_change, seed=None):
                super().__init__(target, cost_of_change,
                                 seed if seed is not None else '%016x' % seed_rng.getrandbits(64))
        lm.CoinSelector = SeededSelector

        from lbry.wallet.ledger import Ledger
        from lbry.wallet.database import Database
        from lbry.wallet.header import Headers
        from lbry.wallet.account import Account
        from lbry.wallet.wallet import Wallet
        from lbry.wallet.bip32 import PrivateKey

        SimLedger = getattr(lm, '_simverif_ledger_class', None)
        if SimLedger is None:      # the ledger registry accepts each id once per process
            class SimLedger(Ledger):
                network_name = 'simnet'
                checkpoints = {}
            lm._simverif_ledger_class = SimLedger

        self.ledger = SimLedger({'db': Database(':memory:'), 'headers': Headers(':memory:'),
                                 'fee_per_byte': self.rate, 'fee_per_name_char': self.name_rate})
        self.ledger.coin_selection_strategy = self.strategy
        self.db = self.ledger.db
        await self.db.open()
        self.wallet = Wallet()
        self.accounts = []
        gaps = self.sc.get('gaps') or [20, 6, 1]
        for i in range(self.n_accounts):
            seed = self.run.rng('account.key', i).getrandbits(256).to_bytes(32, 'big')
            key = PrivateKey.from_seed(self.ledger, seed)
            if self.sc.get('single_key') and i == self.n_accounts - 1:
                gen = {'name': 'single-address'}
            else:
                gen = {'name': 'deterministic-chain',
                       'receiving': {'gap': max(1, int(gaps[0])), 'maximum_uses_per_address': max(1, int(gaps[2]))},
                       'change': {'gap': max(1, int(gaps[1])), 'maximum_uses_per_address': max(1, int(gaps[2]))}}
            acct = Account.from_dict(self.ledger, self.wallet, {
                'name': f'a{i}', 'private_key': key.extended_key_string(), 'address_generator': gen})
            await acct.ensure_address_gap()
            self.accounts.append(acct)
        self.refresh_addresses()
        self._wrap_ledger()
        return self

    def current_build(self):
        b = CURRENT_BUILD.get()
        return b if b is not None else self.task_build.get(asyncio.current_task())

    def _wrap_ledger(self):
        ledger = self.ledger
        orig_select = ledger.get_spendable_utxos
        orig_release = ledger.release_outputs
        orig_reserve = ledger.reserve_outputs
        sim = self

        async def observed_select(amount, funding_accounts, min_amount=1):
            b = sim.current_build()
            call = {'amount': amount, 'waited': ledger._utxo_reservation_lock.locked(),
                    'returned': None, 'exc': None, 't0': sim.loop.elapsed()}
            if b is not None:
                b.calls.append(call)
            token = _IN_SELECT.set(True)
            try:
                res = await orig_select(amount, funding_accounts, min_amount)
            except BaseException as e:  # noqa
                call['exc'] = type(e).__name__
                raise
            finally:
                _IN_SELECT.reset(token)
            ops = [s.txo.id for s in res]
            call['returned'] = ops
            if b is not None:
                b.touched.update(ops)
            if sim.on_select_return is not None:
                sim.on_select_return(b, call, ops)
            return res

        def observed_release(txos):
            txos = list(txos)
            if sim.on_release_call is not None:
                sim.on_release_call(sim.current_build(), [t.id for t in txos if t is not None])
            return orig_release(txos)

        async def observed_reserve(txos):
            # Ledger.get_spendable_utxos reserves through this method too: those calls belong to the
            # selection call around them; only a caller that selects by itself (Account.fund) is reported
            txos = list(txos)
            inside = _IN_SELECT.get()
            res = await orig_reserve(txos)
            if not inside:
                b = sim.current_build()
                ops = [t.id for t in txos]
                if b is not None:
                    b.touched.update(ops)
                if sim.on_reserve_return is not None:
                    sim.on_reserve_return(b, ops)
            return res

        ledger.get_spendable_utxos = observed_select
        ledger.release_outputs = observed_release
        ledger.reserve_outputs = observed_reserve

        # the only network call a build makes: broadcast.  The stub answers after a scenario-given delay
        # with acceptance or with the refusal a server sends (RPCError); recording the accepted
        # transaction the way sync would is done by the caller (`broadcast`).
        from lbry.wallet.rpc.jsonrpc import RPCError

        async def stub_broadcast(raw_hex):
            b = sim.current_build()
            spec = b.spec if b is not None else {}
            delay = float(spec.get('net_delay') or 0.0)
            if delay > 0:
                await asyncio.sleep(delay)
            if spec.get('refuse'):
                sim.net_log.append((b.bid if b is not None else -1, 'refused'))
                raise RPCError(1, 'the transaction was rejected by network rules.')
            sim.net_log.append((b.bid if b is not None else -1, 'accepted'))
            return 'ok'
        ledger.network.broadcast = stub_broadcast

    # ---- synchronous read-only views of the database -------------------------------------------------
    def sql(self, query, params=()):
        return self.db.db.writer_connection.execute(query, params).fetchall()

    def refresh_addresses(self):
        ids = {a.id: i for i, a in enumerate(self.accounts)}
        for row in self.sql("SELECT account, address, chain, n FROM account_address"):
            if row['account'] in ids:
                self.addr_info[row['address']] = (ids[row['account']], row['chain'], row['n'])

    def addresses_of(self, acct, chain):
        out = [(n, a) for a, (i, c, n) in self.addr_info.items() if i == acct and c == chain]
        out.sort()
        return [a for _, a in out]

    def address_pick(self, acct, chain, idx):
        lst = self.addresses_of(acct, chain) or self.addresses_of(acct, 0)
        return lst[idx % len(lst)]

    def db_reserved_unspent(self):
        """txoids whose row has is_reserved = 1 and that no recorded transaction spends."""
        return {r['txoid'] for r in self.sql(
            "SELECT txo.txoid FROM txo LEFT JOIN txi ON (txi.txoid = txo.txoid) "
            "WHERE txo.is_reserved = 1 AND txi.txoid IS NULL")}

    def db_is_reserved(self, ops):
        out = set()
        for op in ops:
            rows = self.sql("SELECT is_reserved FROM txo WHERE txoid = ?", (op,))
            if rows and rows[0]['is_reserved']:
                out.add(op)
        return out

    def change_chain_addresses(self, acct):
        """Addresses of the change address manager of account `acct` (as the wallet's own table defines it)."""
        account = self.accounts[acct]
        return {r['address'] for r in self.sql(
            "SELECT address FROM account_address WHERE account = ? AND chain = ?",
            (account.id, account.change.chain_number))}

    # ---- model queries -----------------------------------------------------------------------------
    def effective(self, u):
        return u.amount - spend_fee(self.rate)

    def available(self, funding, exclude=()):
        out = [u for u in self.utxos.values()
               if not u.spent and u.held_by is None and u.acct in funding and u.op not in exclude]
        out.sort(key=lambda u: u.seq)
        return out

    def unspent(self):
        return sorted((u for u in self.utxos.values() if not u.spent), key=lambda u: u.seq)

    # ---- funding (as the sync path records a received transaction) ---------------------------------------
    async def fund(self, spec):
        from lbry.wallet.transaction import Transaction, Input, Output
        acct = int(spec.get('acct', 0)) % self.n_accounts
        outs = [o for o in (spec.get('outs') or []) if int(o[2]) > 0][:MAX_IO]
        if not outs:
            return []
        height = int(spec.get('height', 1))
        verified = bool(height > 0 and spec.get('verified', True))
        self.fund_seq += 1
        dummy = Transaction()
        dummy.add_outputs([Output.pay_pubkey_hash(10 ** 13 + self.fund_seq, b'\x07' * 20)])
        tx = Transaction(height=height, is_verified=verified)
        tx.add_inputs([Input.spend(dummy.outputs[0])])
        addresses = []
        purchase = bool(spec.get('purchase'))
        if purchase:
            outs = outs[:1]        # output 0 is the payment, output 1 the purchase data
        for chain, idx, amount in outs:
            address = self.address_pick(acct, int(chain), int(idx))
            addresses.append(address)
            tx.add_outputs([Output.pay_pubkey_hash(int(amount), self.ledger.address_to_hash160(address))])
        if purchase:
            from lbry.schema.purchase import Purchase
            tx.add_outputs([Output.add_purchase_data(Purchase('%040x' % (0xabc000 + self.fund_seq)))])
        # the model learns the outputs before the first database job: a concurrent build may select one
        # as soon as its row exists
        made = []
        for i, address in enumerate(addresses):
            made.append(self._add_utxo(tx.outputs[i], acct, address, height, verified))
            made[-1].purchase = purchase
        await self.db.insert_transaction(tx)
        for address in dict.fromkeys(addresses):
            self.history[address] = self.history.get(address, '') + f'{tx.id}:{tx.height}:'
            await self.db.save_transaction_io(tx, address, self.ledger.address_to_hash160(address),
                                              self.history[address])
        if spec.get('gap', True):
            await self.accounts[acct].ensure_address_gap()     # update_history does this after saving
        self.refresh_addresses()
        return made

    def _add_utxo(self, txo, acct, address, height, verified):
        self.utxo_seq += 1
        u = Utxo(txo.id, txo.amount, acct, address, height, verified, txo, self.utxo_seq)
        self.utxos[u.op] = u
        return u

    # ---- requested outputs ----------------------------------------------------------------------------
    def _target_hash(self, spec):
        to = spec.get('to')
        if isinstance(to, list) and len(to) == 3:
            address = self.address_pick(int(to[0]) % self.n_accounts, int(to[1]), int(to[2]))
            return self.ledger.address_to_hash160(address)
        import hashlib
        return hashlib.sha256(b'ext%d' % int(spec.get('ext', 0))).digest()[:20]

    def make_outputs(self, specs, amounts):
        """-> (list of product Output objects, list of name fees) for the requested output specs."""
        from lbry.wallet.transaction import Output
        from lbry.schema.claim import Claim
        from lbry.schema.purchase import Purchase
        outputs, name_fees = [], []
        for spec, amount in zip(specs, amounts):
            k = spec.get('k', 'pay')
            h160 = self._target_hash(spec)
            if k == 'claim':
                claim = Claim()
                claim.stream.title = 't' * int(spec.get('meta', 0))
                name = str(spec.get('name', 'n'))
                outputs.append(Output.pay_claim_name_pubkey_hash(amount, name, claim, h160))
                name_fees.append(len(name.encode()) * self.name_rate)
            elif k == 'support':
                outputs.append(Output.pay_support_pubkey_hash(
                    amount, str(spec.get('name', 'n')), '%040x' % (int(spec.get('ext', 0)) + 1), h160))
                name_fees.append(0)
            elif k == 'purchase':
                outputs.append(Output.pay_pubkey_hash(amount, h160))
                name_fees.append(0)
                outputs.append(Output.add_purchase_data(Purchase('%040x' % (int(spec.get('ext', 0)) + 1))))
                name_fees.append(0)
            elif k == 'script':
                outputs.append(Output.pay_script_hash(amount, h160))
                name_fees.append(0)
            else:
                outputs.append(Output.pay_pubkey_hash(amount, h160))
                name_fees.append(0)
        return outputs, name_fees

    def output_fee(self, script_len, name_fee):
        return max(name_fee, output_size(script_len) * self.rate)

    def resolve_amounts(self, specs, funding, pre):
        """Amount specs are resolved against the MODEL at execution time:
        ['abs', n] | ['frac', f] of the available effective total | ['total', d] / ['subset', [f..], d] /
        ['single', f, d]: the output that carries it makes the build's deficit equal to (effective sum of
        all / a subset / one available output) + d; ['deficit', n]: deficit exactly n; ['pre', d]: deficit =
        effective sum of the build's own pre-chosen inputs + d."""
        avail = self.available(funding, exclude={u.op for u in pre})
        effs = [self.effective(u) for u in avail]
        total = sum(e for e in effs if e > 0)
        amounts = []
        steer = None
        for i, spec in enumerate(specs):
            a = spec.get('amount') or ['abs', 1000]
            if a[0] == 'abs':
                amounts.append(max(0, int(a[1])))
            elif a[0] == 'frac':
                amounts.append(max(1, int(float(a[1]) * total)))
            else:
                amounts.append(0)
                if steer is None:
                    steer = (i, a)
        if steer is not None:
            i, a = steer
            if a[0] == 'total':
                goal = sum(effs) + int(a[1])
            elif a[0] == 'subset' and avail:
                picks = sorted({min(len(avail) - 1, int(float(f) * len(avail))) for f in a[1]})
                goal = sum(effs[j] for j in picks) + int(a[2])
            elif a[0] == 'single' and avail:
                goal = effs[min(len(avail) - 1, int(float(a[1]) * len(avail)))] + int(a[2])
            elif a[0] == 'deficit':            # the build falls exactly this many dewies short of its cost
                goal = int(a[1])
            elif a[0] == 'pre':                # ... short by what its own pre-chosen inputs are worth, + d
                goal = sum(self.effective(u) for u in pre) + int(a[1])
            else:
                goal = 1000
            outputs, name_fees = self.make_outputs(specs, amounts)
            fees = sum(self.output_fee(len(o.script.source), nf) for o, nf in zip(outputs, name_fees))
            payment = sum(self.effective(u) for u in pre)
            # deficit = BASE*rate + sum(amounts) + fees - payment  ==  goal
            amounts[i] = max(0, goal + payment - BASE_SIZE * self.rate - fees - sum(amounts))
        return amounts

    # ---- one build -----------------------------------------------------------------------------------
    def pick_pre(self, spec, funding, exclude=()):
        pre_spec = spec.get('pre')
        avail = self.available(funding, exclude)
        if not pre_spec or not avail:
            return []
        if pre_spec == 'all':
            return avail[:MAX_IO]
        if pre_spec[0] == 'smallest':
            return sorted(avail, key=lambda u: (u.amount, u.seq))[:max(1, int(pre_spec[1]))]
        idx = sorted({min(len(avail) - 1, int(float(f) * len(avail))) for f in pre_spec})
        return [avail[j] for j in idx]

    async def prepare(self, b, exclude=()):
        """Resolve funding accounts, pre-chosen inputs (reserved the way Account.fund does) and outputs.
        `exclude`: outpoints a listing would not show although the model has them free (held by running builds)."""
        spec = b.spec
        b.funding = sorted({int(i) % self.n_accounts for i in (spec.get('funding') or [0])})
        b.change = int(spec.get('change', b.funding[0])) % self.n_accounts
        b.pre = self.pick_pre(spec, set(b.funding), exclude)
        if b.pre:
            # Account.fund(everything) reserves what it hands in; jsonrpc_txo_spend hands in plain,
            # unreserved outputs of the funding account (`pre_unreserved`)
            if not spec.get('pre_unreserved'):
                await self.db.reserve_outputs([u.txo for u in b.pre])    # what Ledger.reserve_outputs does
            for u in b.pre:
                u.held_by = b.bid
                b.touched.add(u.op)
        specs = (spec.get('outputs') or [])[:MAX_IO]
        amounts = self.resolve_amounts(specs, set(b.funding), b.pre)
        b.out_specs, b.out_amounts = specs, amounts
        self.builds[b.bid] = b

    async def create(self, b):
        """Run the real Transaction.create (or one of its front-ends) for a prepared build."""
        from lbry.wallet.transaction import Transaction, Input
        from lbry.schema.claim import Claim
        spec = b.spec
        funding = [self.accounts[i] for i in b.funding]
        change = self.accounts[b.change]
        outputs, name_fees = self.make_outputs(b.out_specs, b.out_amounts)
        b.requested = [(o.amount, bytes(o.script.source), nf) for o, nf in zip(outputs, name_fees)]
        inputs = [Input.spend(u.txo) for u in b.pre]
        sign = bool(spec.get('sign', True))
        task = asyncio.current_task()
        self.task_build[task] = b
        CURRENT_BUILD.set(b)
        b.task = task
        b.state = 'running'
        b.started = self.loop.elapsed()
        self.in_flight += 1
        try:
            api = spec.get('api') and not inputs and len(b.out_specs) == 1
            s0 = b.out_specs[0] if b.out_specs else {}
            if api and s0.get('k', 'pay') == 'pay':
                # Transaction.pay takes an address: use the one paying the same hash
                address = self.ledger.hash160_to_address(self._target_hash(s0))
                tx = await Transaction.pay(b.out_amounts[0], address, funding, change)
            elif api and s0.get('k') == 'claim':
                claim = Claim()
                claim.stream.title = 't' * int(s0.get('meta', 0))
                address = self.ledger.hash160_to_address(self._target_hash(s0))
                tx = await Transaction.claim_create(str(s0.get('name', 'n')), claim, b.out_amounts[0], address,
                                                    funding, change)
                if sign:
                    await tx.sign(funding)
            elif api and s0.get('k') == 'support':
                address = self.ledger.hash160_to_address(self._target_hash(s0))
                tx = await Transaction.support(str(s0.get('name', 'n')), '%040x' % (int(s0.get('ext', 0)) + 1),
                                               b.out_amounts[0], address, funding, change)
                if sign:
                    await tx.sign(funding)
            elif api and s0.get('k') == 'purchase':
                address = self.ledger.hash160_to_address(self._target_hash(s0))
                tx = await Transaction.purchase('%040x' % (int(s0.get('ext', 0)) + 1), b.out_amounts[0], address,
                                                funding, change)
            else:
                tx = await Transaction.create(inputs, outputs, funding, change, sign=sign)
            b.tx = tx
            b.state = 'held'
        except Exception as e:  # noqa
            b.exc = e
            b.state = 'failed'
        except asyncio.CancelledError as e:
            if not b.cancel_expected:      # only a cancellation the scenario asked for is an outcome
                raise
            b.exc = e
            b.state = 'failed'
            b.cancelled = True
            if hasattr(task, 'uncancel'):
                task.uncancel()
        finally:
            self.in_flight -= 1
            b.finished = self.loop.elapsed()
            # the task keeps its build for a later release issued from the same task
        if b.tx is not None:
            try:
                b.parsed = parse_tx(b.tx.raw)
            except Exception as e:  # noqa  the returned object cannot be serialised / parsed back
                b.parse_error = e
        return b

    def settle_model_after_create(self, b):
        """Update the reference model from the outcome (called by the property after its checks)."""
        if b.state == 'held':
            for i in b.parsed['ins']:
                u = self.utxos.get(i['op'])
                if u is not None:
                    u.held_by = b.bid
        elif b.state == 'failed':
            for u in self.utxos.values():
                if u.held_by == b.bid:
                    u.held_by = None

    def prepare_fund(self, b):
        """A build that is a real Account.fund call (kind fund_everything / fund_amount)."""
        spec = b.spec
        b.funding = [int((spec.get('funding') or [0])[0]) % self.n_accounts]
        b.change = int(spec.get('change', b.funding[0])) % self.n_accounts
        b.out_specs, b.out_amounts = [], []
        self.builds[b.bid] = b

    async def account_fund(self, b):
        """Run the real Account.fund(to_account, everything=True | amount=..., broadcast=...)."""
        spec = b.spec
        src, dst = self.accounts[b.funding[0]], self.accounts[b.change]
        broadcast = bool(spec.get('broadcast'))
        task = asyncio.current_task()
        self.task_build[task] = b
        CURRENT_BUILD.set(b)
        b.task = task
        b.state = 'running'
        b.started = self.loop.elapsed()
        self.in_flight += 1
        try:
            if b.kind == 'fund_everything':
                tx = await src.fund(dst, everything=True, broadcast=broadcast)
            else:
                amount = spec.get('amount') or ['abs', 1000]
                tx = await src.fund(dst, amount=max(1, int(amount[1])), outputs=max(1, int(spec.get('n_out', 1))),
                                    broadcast=broadcast)
            b.tx = tx
            b.state = 'held' if broadcast else 'released'     # a preview is released by Account.fund itself
        except Exception as e:  # noqa
            b.exc = e
            b.state = 'failed'
        finally:
            self.in_flight -= 1
            b.finished = self.loop.elapsed()
        if b.tx is not None:
            try:
                b.parsed = parse_tx(b.tx.raw)
            except Exception as e:  # noqa
                b.parse_error = e
        return b

    async def broadcast_or_release(self, b):
        """What the daemon does with a built transaction: Ledger.broadcast_or_release over the stub network.
        -> True accepted (still to be recorded with `broadcast`), False refused (the product released it)."""
        from lbry.wallet.rpc.jsonrpc import RPCError
        if b.state != 'held':
            return None
        token = CURRENT_BUILD.set(b)
        try:
            await self.ledger.broadcast_or_release(b.tx)
        except RPCError:
            for u in self.utxos.values():
                if u.held_by == b.bid:
                    u.held_by = None
            b.state = 'released'
            return False
        finally:
            CURRENT_BUILD.reset(token)
        return True

    async def release(self, b):
        if b.state != 'held':
            return False
        task = asyncio.current_task()
        before = self.task_build.get(task)
        self.task_build[task] = b
        token = CURRENT_BUILD.set(b)
        try:
            await self.ledger.release_tx(b.tx)
        finally:
            CURRENT_BUILD.reset(token)
            if before is None:
                self.task_build.pop(task, None)
            else:
                self.task_build[task] = before
        for u in self.utxos.values():
            if u.held_by == b.bid:
                u.held_by = None
        b.state = 'released'
        return True

    async def broadcast(self, b, height, gap=True):
        """Record the built transaction as the sync path would once the network reports it."""
        if b.state != 'held':
            return False
        tx = b.tx
        self.refresh_addresses()       # the build may have generated a new change address
        spent = [self.utxos[i['op']] for i in b.parsed['ins'] if i['op'] in self.utxos]
        height = int(height)
        if height == 0 and any(not u.confirmed for u in spent):
            height = -1          # mempool with unconfirmed inputs
        tx.height = height
        tx.is_verified = tx.height > 0
        involved = [u.address for u in spent]
        mine = []
        for n, o in enumerate(b.parsed['outs']):
            h = p2pkh_hash(o['script'])
            if h is not None:
                address = self.ledger.hash160_to_address(h)
                if address in self.addr_info:
                    involved.append(address)
                    mine.append((n, address))
        # model first (synchronously), database second: see fund()
        for u in spent:
            u.spent = True
            u.held_by = None
        made = []
        for n, address in mine:
            made.append(self._add_utxo(tx.outputs[n], self.addr_info[address][0], address,
                                       tx.height, tx.is_verified))
        b.state = 'broadcast'
        for address in dict.fromkeys(involved):
            self.history[address] = self.history.get(address, '') + f'{tx.id}:{tx.height}:'
            await self.db.save_transaction_io(tx, address, self.ledger.address_to_hash160(address),
                                              self.history[address])
        if gap:
            for i in sorted({self.addr_info[a][0] for a in dict.fromkeys(involved)}):
                await self.accounts[i].ensure_address_gap()
        self.refresh_addresses()
        return made

    # ---- audit: the product's own view against the model ---------------------------------------------------
    async def product_utxos(self):
        """{account index: set of outpoints returned by the real Account.get_utxos()}"""
        out = {}
        for i, acct in enumerate(self.accounts):
            out[i] = {t.id for t in await acct.get_utxos(no_tx=True, no_channel_info=True)}
        return out

    async def close(self):
        try:
            await self.db.close()
        except Exception:  # noqa
            pass


# ---------------------------------------------------------------------------------------------------
# generation helpers shared by both properties (pure functions of the PRNG handed in)
# ---------------------------------------------------------------------------------------------------

def gen_amount(r, rate, regime):
    """One UTXO amount.  `clean` regimes stay above the fee to spend the output (domain of O7)."""
    sf = spend_fee(rate)
    coc = cost_of_change(rate)
    kind = r.choices(['big', 'mid', 'edge', 'small'], {
        'plain': [6, 3, 0, 1], 'boundary': [2, 2, 5, 1], 'dusty': [3, 2, 3, 2], 'small': [1, 3, 2, 6]}[regime])[0]
    if kind == 'big':
        return r.choice([1, 1, 2, 5, 5, 10, 50]) * r.choice([10 ** 8, 10 ** 8, 10 ** 6, 10 ** 7])
    if kind == 'mid':
        return sf + 1 + int(r.uniform(1, 50) * max(sf, 500))
    if kind == 'small':
        return sf + 1 + r.randrange(1, 4 * max(coc, 100) + 2 * DUST)
    d = r.choice([1, 2, DUST, DUST + 1, coc, coc + 1, coc + DUST, coc + DUST + 1, BASE_SIZE * rate + 1,
                  BASE_SIZE * rate + coc + DUST + 1, 2 * coc + DUST + 2])
    if regime == 'dusty' and r.random() < 0.5:
        return max(1, sf - r.choice([0, 1, DUST, sf // 2, sf - 1]))
    return sf + d


def gen_output_spec(r, rate, kinds_w):
    k = r.choices(['pay', 'claim', 'support', 'purchase', 'script'], kinds_w)[0]
    spec = {'k': k, 'ext': r.randrange(1000)}
    if k == 'claim':
        spec['name'] = r.choice(['a', 'abc', 'name-%d' % r.randrange(100), 'x' * r.choice([1, 8, 40, 200]), 'ü中'])
        spec['meta'] = r.choice([0, 0, 10, 100, 300, 1000])
    elif k == 'support':
        spec['name'] = r.choice(['a', 'abc', 'x' * 40])
    if k in ('pay', 'claim', 'support') and r.random() < 0.25:
        spec['to'] = [r.randrange(2), r.choice([0, 0, 1]), r.randrange(8)]
    return spec
