"""Reference wallet server ("hub") + wallet_sync environment (DESIGN.md §7 C08/C09).

Everything in the first half of this file is *independent* code: its own Base58, script builders,
transaction serializer (legacy and segwit encodings), txid computation, Merkle tree / proofs /
fold, 112-byte LBRY block headers, electrum-style address histories and status hashes.  Nothing
there imports `lbry`.  The product's key derivation is only used by `WalletSync` (second half) to
learn which addresses the wallet owns.

The second half wires a real `Ledger` + `Database(':memory:')` + `Headers(':memory:')` + `Account`
to the hub through a `Network` sub-class whose single funnel `rpc()` is answered in-process after
scheduler-drawn virtual latencies.
"""
import asyncio
import base64
import hashlib
import struct
import zlib

# ---------------------------------------------------------------------------------------------------
# primitives (independent of the product)
# ---------------------------------------------------------------------------------------------------

_B58 = '123456789ABCDEFGHJKLMNPQRSTUVWXYZabcdefghijkmnopqrstuvwxyz'
_B58_IDX = {c: i for i, c in enumerate(_B58)}


def sha256(b):
    return hashlib.sha256(b).digest()


def dsha256(b):
    return hashlib.sha256(hashlib.sha256(b).digest()).digest()


def b58decode(s):
    n = 0
    for c in s:
        n = n * 58 + _B58_IDX[c]
    pad = len(s) - len(s.lstrip('1'))
    body = n.to_bytes((n.bit_length() + 7) // 8, 'big') if n else b''
    return b'\x00' * pad + body


def address_to_h160(address):
    raw = b58decode(address)
    assert len(raw) == 25 and dsha256(raw[:-4])[:4] == raw[-4:], address
    return raw[1:21]


def varint(n):
    if n < 253:
        return bytes((n,))
    if n <= 0xffff:
        return b'\xfd' + struct.pack('<H', n)
    if n <= 0xffffffff:
        return b'\xfe' + struct.pack('<I', n)
    return b'\xff' + struct.pack('<Q', n)


def push(data):
    n = len(data)
    if n < 0x4c:
        return bytes((n,)) + data
    if n <= 0xff:
        return b'\x4c' + bytes((n,)) + data
    if n <= 0xffff:
        return b'\x4d' + struct.pack('<H', n) + data
    return b'\x4e' + struct.pack('<I', n) + data


OP_0, OP_1, OP_2, OP_3 = b'\x00', b'\x51', b'\x52', b'\x53'
OP_RETURN, OP_DUP, OP_HASH160, OP_EQUAL, OP_EQUALVERIFY = b'\x6a', b'\x76', b'\xa9', b'\x87', b'\x88'
OP_CHECKSIG, OP_CHECKMULTISIG, OP_2DROP, OP_DROP, OP_NOP = b'\xac', b'\xae', b'\x6d', b'\x75', b'\x61'
OP_CLAIM_NAME, OP_SUPPORT_CLAIM, OP_UPDATE_CLAIM = b'\xb5', b'\xb6', b'\xb7'


def p2pkh(h):
    return OP_DUP + OP_HASH160 + push(h) + OP_EQUALVERIFY + OP_CHECKSIG


def p2sh(h):
    return OP_HASH160 + push(h) + OP_EQUAL


def claim_prefix(name, claim):
    return OP_CLAIM_NAME + push(name) + push(claim) + OP_2DROP + OP_DROP


def update_prefix(name, claim_id, claim):
    return OP_UPDATE_CLAIM + push(name) + push(claim_id) + push(claim) + OP_2DROP + OP_2DROP


def support_prefix(name, claim_id):
    return OP_SUPPORT_CLAIM + push(name) + push(claim_id) + OP_2DROP + OP_DROP


def support_data_prefix(name, claim_id, data):
    return OP_SUPPORT_CLAIM + push(name) + push(claim_id) + push(data) + OP_2DROP + OP_2DROP


# payloads (bytes produced once with the product's schema classes; any bytes are tolerated by the sync)
PAYLOADS = {
    'stream': bytes.fromhex('000a0e0a0c220a746578742f706c61696e420373696d'),
    'channel': bytes.fromhex('0012230a2102111111111111111111111111111111111111111111111111111111111111111142046368616e'),
    'repost': bytes.fromhex('0022160a14abababababababababababababababababababab'),
    'collection': bytes.fromhex('001a004203636f6c'),
    'junk': b'\xff\x00not-a-claim',
    'empty': b'',
    'big': bytes.fromhex('000a0e0a0c220a746578742f706c61696e420373696d') + b'\x42\xfa\x01' + b'z' * 250,
}
PURCHASE_DATA = bytes.fromhex('500a14cdcdcdcdcdcdcdcdcdcdcdcdcdcdcdcdcdcdcdcd')
SUPPORT_DATA = bytes.fromhex('000a0178')

# ---- data that matches every script template but is hostile one layer further in -------------------------
# claim / support / update NAMES are arbitrary bytes on chain: these are not valid UTF-8 (or unusual)
HOSTILE_NAMES = {
    'ff_fe': b'\xff\xfe',
    'lone_continuation': b'\x80',
    'overlong_slash': b'\xc0\xaf',
    'truncated_multibyte': b'caf\xe2\x82',
    'surrogate': b'\xed\xa0\x80',
    'five_byte_form': b'\xf8\x88\x80\x80\x80',
    'latin1': 'caf\u00e9'.encode('latin-1'),
    'utf16': 'name'.encode('utf-16'),
    'long_invalid': b'a' * 90 + b'\xfe' + b'b' * 200,
}
# not hostile to a strict decoder, but unusual: must be handled as well (controls)
ODD_VALID_NAMES = {
    'empty': b'',
    'nul': b'a\x00b',
    'long_valid': ('\u00e9' * 150).encode(),
    'bom': b'\xef\xbb\xbfname',
}


def pb_bytes(field, data):
    """protobuf length-delimited field"""
    n, v = len(data), b''
    while True:
        b = n & 0x7f
        n >>= 7
        v += bytes([b | (0x80 if n else 0)])
        if not n:
            break
    return bytes([(field << 3) | 2]) + v + data


def channel_payload(public_key, title=b'chan'):
    """Unsigned v2 claim that decodes as a CHANNEL whose public_key field holds exactly `public_key`."""
    return b'\x00' + pb_bytes(2, pb_bytes(1, public_key) if public_key is not None else b'') + pb_bytes(8, title)


_DER_SECP256K1 = bytes.fromhex('3056301006072a8648ce3d020106052b8104000a03420004')
_GOOD_POINT = bytes.fromhex('1b84c5567b126440995d3ed5aaba0565d71e1834604819ff9c17f5e9d5dd078f'
                            '70beaf8f588b541507fed6a642c5ab42dfdf8120a7f639de5122d47a69a8e8d1')
# channel public keys that are neither 33 raw bytes nor DER of a secp256k1 key (None: field absent)
MALFORMED_CHANNEL_KEYS = {
    'junk10': bytes.fromhex('8f3a1c5577e0d2419b06'),
    'empty': b'',
    'absent': None,
    'truncated_der': (_DER_SECP256K1 + _GOOD_POINT)[:40],
    'der_point_not_on_curve': _DER_SECP256K1 + b'\x11' * 64,
    'raw32': b'\x5a' * 32,
    'raw34': b'\x02' + b'\x5a' * 33,
    'raw65_uncompressed': b'\x04' + _GOOD_POINT,
    'der_other_structure': bytes.fromhex('3003020101'),
    'der_empty_sequence': bytes.fromhex('3000'),
    'der_length_beyond_data': bytes.fromhex('30820100') + b'\x00' * 10,
    'der_rsa_key': bytes.fromhex('301a300d06092a864886f70d01010105000309003006020100020103'),
}
# well-formed controls
WELLFORMED_CHANNEL_KEYS = {
    'der_secp256k1': _DER_SECP256K1 + _GOOD_POINT,
    'raw33': b'\x03' + _GOOD_POINT[:32],
}

WALLET_KINDS = ('plain', 'claim', 'update', 'support', 'support_data')
SPENDABLE_KINDS = ('plain',)

# third-party output kinds.  `standard`: every script matches one of the product's output templates
# (or is empty).  `exotic`: valid on the block chain, matches none of them.
THIRD_STANDARD = ('p2pkh', 'p2pkh_short', 'p2sh', 'p2pk33', 'p2pk65', 'p2wpkh', 'p2wsh', 'op_return', 'op_return_empty',
                  'claim_p2pkh', 'claim_p2sh', 'update_p2sh', 'support_p2pkh', 'support_p2sh', 'empty')
THIRD_EXOTIC = ('witness_v1', 'multisig', 'op_return_bare', 'op_return_multi', 'p2pkh_nop', 'nonstandard',
                'truncated_pushdata2', 'garbage')


def third_party_script(kind, rng, garbage_hex=None, name=None, payload=None):
    """`name` / `payload` override the claim name and claim payload of the claim-carrying kinds."""
    nm = b'other' if name is None else name
    rb = lambda n: rng.getrandbits(8 * n).to_bytes(n, 'big')  # noqa: E731
    if kind == 'p2pkh':
        return p2pkh(rb(20))
    if kind == 'p2pkh_short':
        return p2pkh(rb(5))
    if kind == 'p2sh':
        return p2sh(rb(20))
    if kind == 'p2pk33':
        return push(b'\x02' + rb(32)) + OP_CHECKSIG
    if kind == 'p2pk65':
        return push(b'\x04' + rb(64)) + OP_CHECKSIG
    if kind == 'p2wpkh':
        return OP_0 + push(rb(20))
    if kind == 'p2wsh':
        return OP_0 + push(rb(32))
    if kind == 'op_return':
        return OP_RETURN + push(rb(rng.choice([1, 8, 40, 80])))
    if kind == 'op_return_empty':
        return OP_RETURN + OP_0
    if kind == 'claim_p2pkh':
        return claim_prefix(nm, PAYLOADS['stream'] if payload is None else payload) + p2pkh(rb(20))
    if kind == 'claim_p2sh':
        return claim_prefix(nm, PAYLOADS['channel'] if payload is None else payload) + p2sh(rb(20))
    if kind == 'update_p2sh':
        return update_prefix(nm, rb(20), PAYLOADS['stream'] if payload is None else payload) + p2sh(rb(20))
    if kind == 'support_p2pkh':
        return support_prefix(nm, rb(20)) + p2pkh(rb(20))
    if kind == 'support_p2sh':
        return support_data_prefix(nm, rb(20), SUPPORT_DATA) + p2sh(rb(20))
    if kind == 'empty':
        return b''
    # ---- exotic ----
    if kind == 'witness_v1':
        return OP_1 + push(rb(32))
    if kind == 'multisig':
        return OP_1 + push(b'\x02' + rb(32)) + push(b'\x03' + rb(32)) + OP_2 + OP_CHECKMULTISIG
    if kind == 'op_return_bare':
        return OP_RETURN
    if kind == 'op_return_multi':
        return OP_RETURN + push(rb(4)) + push(rb(12))
    if kind == 'p2pkh_nop':
        return p2pkh(rb(20)) + OP_NOP
    if kind == 'nonstandard':
        return OP_DUP + OP_DROP + OP_1
    if kind == 'truncated_pushdata2':
        return b'\x4d\x01'
    if kind == 'garbage':
        return bytes.fromhex(garbage_hex) if garbage_hex is not None else rb(rng.randint(1, 40))
    raise ValueError(kind)


# ---------------------------------------------------------------------------------------------------
# transactions
# ---------------------------------------------------------------------------------------------------

class TxIn:
    __slots__ = ('prev_txid', 'prev_n', 'script_sig', 'sequence', 'witness')

    def __init__(self, prev_txid, prev_n, script_sig, sequence=0xffffffff, witness=None):
        self.prev_txid = prev_txid        # hex, display order
        self.prev_n = prev_n
        self.script_sig = script_sig
        self.sequence = sequence
        self.witness = witness            # list of stack items or None


class TxOut:
    __slots__ = ('amount', 'script', 'address', 'kind')

    def __init__(self, amount, script, address=None, kind='third'):
        self.amount = amount
        self.script = script
        self.address = address            # wallet address string if the output pays the wallet
        self.kind = kind                  # one of WALLET_KINDS, or 'third:<kind>'


def serialize_tx(version, ins, outs, locktime, segwit):
    """-> (full serialization, non-witness serialization)"""
    body = [varint(len(ins))]
    for i in ins:
        body.append(bytes.fromhex(i.prev_txid)[::-1] + struct.pack('<I', i.prev_n) +
                    varint(len(i.script_sig)) + i.script_sig + struct.pack('<I', i.sequence))
    body.append(varint(len(outs)))
    for o in outs:
        body.append(struct.pack('<Q', o.amount) + varint(len(o.script)) + o.script)
    body = b''.join(body)
    nw = struct.pack('<I', version) + body + struct.pack('<I', locktime)
    if not segwit:
        return nw, nw
    wit = []
    for i in ins:
        stack = i.witness or []
        wit.append(varint(len(stack)) + b''.join(varint(len(it)) + it for it in stack))
    full = struct.pack('<I', version) + b'\x00\x01' + body + b''.join(wit) + struct.pack('<I', locktime)
    return full, nw


def _read_varint(raw, p):
    b = raw[p]
    if b < 253:
        return b, p + 1
    if b == 253:
        return struct.unpack_from('<H', raw, p + 1)[0], p + 3
    if b == 254:
        return struct.unpack_from('<I', raw, p + 1)[0], p + 5
    return struct.unpack_from('<Q', raw, p + 1)[0], p + 9


def txhash_from_raw(raw):
    """Independent txid of served bytes: double-SHA256 of the serialization without marker, flag and
    witnesses (internal byte order).  Raises on structurally broken input."""
    p = 4
    segwit = raw[4] == 0
    if segwit:
        p = 6
    start = p
    n_in, p = _read_varint(raw, p)
    for _ in range(n_in):
        p += 36
        ln, p = _read_varint(raw, p)
        p += ln + 4
    n_out, p = _read_varint(raw, p)
    for _ in range(n_out):
        p += 8
        ln, p = _read_varint(raw, p)
        p += ln
    if p > len(raw) - 4:
        raise ValueError('truncated transaction')
    if not segwit and p != len(raw) - 4:
        raise ValueError('trailing bytes')
    return dsha256(raw[:4] + raw[start:p] + raw[-4:])


class HubTx:
    __slots__ = ('txid', 'hash', 'raw', 'raw_nw', 'ins', 'outs', 'height', 'pos', 'seq', 'segwit', 'version',
                 'locktime', 'wallet_related')

    def __init__(self, version, ins, outs, locktime, segwit):
        self.version, self.ins, self.outs, self.locktime, self.segwit = version, ins, outs, locktime, segwit
        self.raw, self.raw_nw = serialize_tx(version, ins, outs, locktime, segwit)
        self.hash = dsha256(self.raw_nw)
        self.txid = self.hash[::-1].hex()
        self.height = None                # None: mempool
        self.pos = None
        self.seq = None
        self.wallet_related = False


# ---------------------------------------------------------------------------------------------------
# Merkle tree
# ---------------------------------------------------------------------------------------------------

def merkle_levels(leaves):
    levels = [list(leaves)]
    cur = levels[0]
    while len(cur) > 1:
        if len(cur) % 2:
            cur = cur + [cur[-1]]
        cur = [dsha256(cur[i] + cur[i + 1]) for i in range(0, len(cur), 2)]
        levels.append(cur)
    return levels


def merkle_root(leaves):
    return merkle_levels(leaves)[-1][0]


def merkle_branch(leaves, index):
    branch = []
    for level in merkle_levels(leaves)[:-1]:
        if len(level) % 2:
            level = level + [level[-1]]
        branch.append(level[index ^ 1])
        index >>= 1
    return branch


def merkle_fold(leaf, branch, pos):
    h = leaf
    for i, sib in enumerate(branch):
        h = dsha256(sib + h) if (pos >> i) & 1 else dsha256(h + sib)
    return h


# ---------------------------------------------------------------------------------------------------
# block headers (112 bytes: version, prev hash, merkle root, claim trie root, time, bits, nonce)
# ---------------------------------------------------------------------------------------------------

HEADER_SIZE = 112


def make_header(version, prev_hash, root, claim_trie_root, timestamp, bits, nonce):
    h = struct.pack('<I', version) + prev_hash + root + claim_trie_root + struct.pack('<III', timestamp, bits, nonce)
    assert len(h) == HEADER_SIZE
    return h


def header_merkle_root(header):
    return header[36:68]


class Block:
    __slots__ = ('height', 'txids', 'leaves', 'header', 'root')


# ---------------------------------------------------------------------------------------------------
# the hub
# ---------------------------------------------------------------------------------------------------

class Hub:
    """Block chain + mempool + electrum-style address index + the RPC surface the wallet uses."""

    MAX_PER_ADDRESS = 100

    def __init__(self, mempool_order='arrival'):
        self.mempool_order = mempool_order          # 'arrival' | 'txid'
        self.txs = {}                               # txid -> HubTx
        self.blocks = []
        self.mempool = []                           # txids in arrival order
        self.addr_txs = {}                          # wallet address -> [txid] (arrival order, unique)
        self.wallet_addrs = {}                      # address -> (chain, index)
        self.wouts = {}                             # (txid, n) -> TxOut paying a wallet address
        self.touts = {}                             # (txid, n) -> TxOut third-party output of a wallet-related tx
        self.spent = {}                             # (txid, n) -> spending txid
        self.subscribed = {}                        # address -> last status sent to the client
        self.seq = 0
        # Byzantine switches (C08)
        self.proof_mut = {}                         # txid -> mutation spec dict
        self.height_shift = {}                      # txid -> delta reported in histories AND in the proof dict
        self.hist_shift = {}                        # txid -> delta reported in histories only (proof dict stays true)
        self.raw_mut = {}                           # txid -> alteration spec
        self.served_merkle = {}                     # txid -> last merkle dict served
        self.served_raw = {}                        # txid -> last raw bytes served
        self.alias = {}                             # id of altered bytes -> txid of the genuine transaction
        self.reorgs = []                            # (first replaced height, blocks replaced, new branch length)
        self.stats = {}
        # header history and the header-batch lie (C08 family `forged_batch`)
        self.honest_headers = set()                 # (height, header) of every block this hub ever mined (also replaced ones)
        self.header_lie = None                      # armed one-shot lie for `blockchain.block.headers` (arm_header_lie)
        self.header_lies_served = []                # the lies that were actually handed out
        self.forged_headers = {}                    # height -> forged header bytes (every lie armed so far)

    # ---- wallet address registry ---------------------------------------------------------------------
    def register_address(self, address, chain, index):
        self.wallet_addrs.setdefault(address, (chain, index))

    def last_used(self, chain):
        best = -1
        for a, txids in self.addr_txs.items():
            c, i = self.wallet_addrs[a]
            if c == chain and txids and i > best:
                best = i
        return best

    def used_addresses(self, chain):
        out = [(self.wallet_addrs[a][1], a) for a, t in self.addr_txs.items() if t and self.wallet_addrs[a][0] == chain]
        return [a for _, a in sorted(out)]

    # ---- building ------------------------------------------------------------------------------------
    def touched_addresses(self, ins, outs):
        seen = []
        for i in ins:
            o = self.wouts.get((i.prev_txid, i.prev_n))
            if o is not None and o.address not in seen:
                seen.append(o.address)
        for o in outs:
            if o.address is not None and o.address not in seen:
                seen.append(o.address)
        return seen

    def would_exceed(self, ins, outs):
        return any(len(self.addr_txs.get(a, ())) >= self.MAX_PER_ADDRESS for a in self.touched_addresses(ins, outs))

    def add_tx(self, ins, outs, segwit=False, version=1, locktime=0):
        tx = HubTx(version, ins, outs, locktime, segwit)
        if tx.txid in self.txs:
            return None
        for i in ins:
            if (i.prev_txid, i.prev_n) in self.spent:
                return None                          # no double spends on this chain
        self.seq += 1
        tx.seq = self.seq
        self.txs[tx.txid] = tx
        self.mempool.append(tx.txid)
        touched = self.touched_addresses(ins, outs)
        tx.wallet_related = bool(touched)
        for i in ins:
            self.spent[(i.prev_txid, i.prev_n)] = tx.txid
        for n, o in enumerate(outs):
            if o.address is not None:
                self.wouts[(tx.txid, n)] = o
            elif tx.wallet_related:
                self.touts[(tx.txid, n)] = o
        for a in touched:
            self.addr_txs.setdefault(a, []).append(tx.txid)
        return tx

    def filler_tx(self, rng):
        rb = lambda n: rng.getrandbits(8 * n).to_bytes(n, 'big')  # noqa: E731
        ins = [TxIn(rb(32).hex(), rng.randrange(4), push(rb(71)) + push(b'\x02' + rb(32)))]
        outs = [TxOut(rng.randrange(1, 10 ** 9), p2pkh(rb(20)))]
        tx = HubTx(1, ins, outs, 0, False)
        self.seq += 1
        tx.seq = self.seq
        self.txs[tx.txid] = tx
        return tx

    def coinbase_tx(self, rng, height):
        rb = lambda n: rng.getrandbits(8 * n).to_bytes(n, 'big')  # noqa: E731
        ins = [TxIn('00' * 32, 0xffffffff, push(height.to_bytes(4, 'little')) + push(rb(8)))]
        outs = [TxOut(10 ** 9, p2pkh(rb(20)))]
        tx = HubTx(1, ins, outs, 0, False)
        self.seq += 1
        tx.seq = self.seq
        self.txs[tx.txid] = tx
        return tx

    def select_for_block(self, rng, take):
        """Subset of the mempool closed under ancestors (a child never confirms before its parent)."""
        chosen = []
        chosen_set = set()
        for txid in self.mempool:
            tx = self.txs[txid]
            parents_ok = all(self.txs[i.prev_txid].height is not None or i.prev_txid in chosen_set
                             for i in tx.ins if i.prev_txid in self.txs)
            if parents_ok and (take >= 1.0 or rng.random() < take):
                chosen.append(txid)
                chosen_set.add(txid)
        return chosen

    def mine(self, rng, txids, n_fill):
        height = len(self.blocks)
        members = [self.txs[t] for t in txids] + [self.filler_tx(rng) for _ in range(n_fill)]
        prio = {tx.txid: rng.random() for tx in members}
        in_block = {tx.txid for tx in members}
        placed, placed_set = [], set()
        remaining = sorted(members, key=lambda t: prio[t.txid])
        while remaining:
            for k, tx in enumerate(remaining):
                if all(i.prev_txid not in in_block or i.prev_txid in placed_set for i in tx.ins):
                    placed.append(tx)
                    placed_set.add(tx.txid)
                    del remaining[k]
                    break
            else:  # pragma: no cover - cannot happen (no cycles)
                placed.extend(remaining)
                break
        order = [self.coinbase_tx(rng, height)] + placed
        blk = Block()
        blk.height = height
        blk.txids = [t.txid for t in order]
        blk.leaves = [t.hash for t in order]
        blk.root = merkle_root(blk.leaves)
        prev = dsha256(self.blocks[-1].header) if self.blocks else b'\x00' * 32
        blk.header = make_header(1, prev, blk.root, rng.getrandbits(256).to_bytes(32, 'big'),
                                 1_700_000_000 + 150 * height, 0x207fffff, rng.getrandbits(32))
        for pos, t in enumerate(order):
            t.height, t.pos = height, pos
        mined = set(txids)
        self.mempool = [t for t in self.mempool if t not in mined]
        self.blocks.append(blk)
        self.honest_headers.add((height, blk.header))
        return blk

    def reorg(self, rng, k, new_len, n_fill=(0, 3)):
        """Replace the last `k` blocks by `new_len` (>= k) blocks with different transaction lists.

        Coinbases of the replaced blocks vanish.  Every other transaction of them gets a seeded fate: stay at
        its height (other position), move to another height of the new branch, or leave the chain -- wallet
        related ones drop back to the mempool, foreign fillers vanish.  A child never ends up below its parent.
        -> (first replaced height, {txid: (old height, new height or None)})"""
        k = max(1, min(int(k), len(self.blocks) - 1))
        new_len = max(k, int(new_len))
        old = self.blocks[-k:]
        del self.blocks[-k:]
        base = len(self.blocks)
        displaced = []
        for blk in old:
            for pos, txid in enumerate(blk.txids):
                tx = self.txs[txid]
                if pos == 0:
                    del self.txs[txid]                  # coinbase of an abandoned block
                else:
                    displaced.append((tx, blk.height))
        displaced.sort(key=lambda e: e[0].seq)
        slot = {}                                       # txid -> index in the new branch, or None (leaves the chain)
        moves = {}
        for tx, old_h in displaced:
            x = rng.random()
            if x < 0.4:
                idx = min(old_h - base, new_len - 1)
            elif x < 0.75:
                idx = rng.randrange(new_len)
            else:
                idx = None
            for i in tx.ins:
                if i.prev_txid in slot:
                    pidx = slot[i.prev_txid]
                    if pidx is None:
                        idx = None
                    elif idx is not None and idx < pidx:
                        idx = pidx
                else:
                    p = self.txs.get(i.prev_txid)
                    if p is not None and p.height is None and i.prev_txid not in slot:
                        idx = None                      # parent sits in the mempool
            slot[tx.txid] = idx
            tx.height = tx.pos = None
            moves[tx.txid] = (old_h, None if idx is None else base + idx)
        back = [tx for tx, _ in displaced if slot[tx.txid] is None]
        for tx in back:
            if tx.wallet_related:
                self.mempool.append(tx.txid)
            else:
                del self.txs[tx.txid]
        self.mempool.sort(key=lambda t: self.txs[t].seq)
        for i in range(new_len):
            members = [tx.txid for tx, _ in displaced if slot[tx.txid] == i]
            self.mine(rng, members, rng.randint(*n_fill))
        self.reorgs.append((base, k, new_len))
        return base, moves

    def mine_synthetic(self, rng, count):
        """`count` linked blocks without transaction lists (Merkle root = hash of a label): cheap filler for
        long chains; nothing in them can be fetched or proven."""
        prev = dsha256(self.blocks[-1].header) if self.blocks else b'\x00' * 32
        salt = rng.getrandbits(64).to_bytes(8, 'big')
        for _ in range(count):
            height = len(self.blocks)
            blk = Block()
            blk.height = height
            blk.txids = []
            blk.leaves = []
            blk.root = dsha256(b'synthetic block %d ' % height + salt)
            blk.header = make_header(1, prev, blk.root, b'\x00' * 32, 1_700_000_000 + 150 * height, 0x207fffff, height)
            prev = dsha256(blk.header)
            self.blocks.append(blk)
            self.honest_headers.add((height, blk.header))

    def chunk_checkpoint(self, start, count=1000):
        """Checkpoint value of headers [start, start+count): display-order hex of the double-SHA256 of the chunk."""
        return dsha256(b''.join(b.header for b in self.blocks[start:start + count]))[::-1].hex()

    # ---- header-batch lie ------------------------------------------------------------------------------
    def arm_header_lie(self, rng, start, n, k, roots=None, first_prev='random', link_p=1.0):
        """Prepare ONE Byzantine answer for the next `blockchain.block.headers` request that starts at `start`:
        `n` headers of which the first `k` (fewer if the chain has fewer above `start`) are this chain's honest
        headers [start, start+k) and the rest are forged.  A forged header is a structurally valid 112-byte
        header; the first forged one never links to its predecessor (`first_prev`: 'random' bytes | 'bitflip' of
        the true hash | 'skip' = hash of the header two below | 'zero'), each later one links to the forged header
        before it with probability `link_p` (else random bytes).  `roots` {index in the batch: 32-byte Merkle
        root} lets a forged header carry a root the hub can serve a consistent proof for; other roots are random.
        -> the lie {'start', 'n', 'k' (effective), 'data', 'forged': {height: header}}; served once, then the hub
        is honest again."""
        rb = lambda c: rng.getrandbits(8 * c).to_bytes(c, 'big')  # noqa: E731
        n = max(1, int(n))
        honest = [b.header for b in self.blocks[start:start + max(0, min(int(k), n - 1))]] if start >= 0 else []
        out = list(honest)
        forged = {}
        for j in range(len(honest), n):
            height = start + j
            if out:
                true_prev = dsha256(out[-1])
            elif 0 < start <= len(self.blocks):
                true_prev = dsha256(self.blocks[start - 1].header)
            else:
                true_prev = b'\x00' * 32
            if j > len(honest) and rng.random() < link_p:
                prev = true_prev                                   # builds on the forged header before it
            else:
                prev = None
                if j == len(honest):
                    if first_prev == 'bitflip':
                        b = bytearray(true_prev)
                        b[rng.randrange(32)] ^= 1 << rng.randrange(8)
                        prev = bytes(b)
                    elif first_prev == 'skip' and len(out) >= 2:
                        prev = dsha256(out[-2])
                    elif first_prev == 'skip' and 0 <= height - 2 < len(self.blocks):
                        prev = dsha256(self.blocks[height - 2].header)
                    elif first_prev == 'zero':
                        prev = b'\x00' * 32
                if prev is None or prev == true_prev:
                    prev = rb(32)
                    if prev == true_prev:  # pragma: no cover
                        prev = bytes(32)
            root = (roots or {}).get(j) or rb(32)
            hdr = make_header(1, prev, root, rb(32), 1_700_000_000 + 150 * height, 0x207fffff, rng.getrandbits(32))
            out.append(hdr)
            forged[height] = hdr
        self.forged_headers.update(forged)
        self.header_lie = {'start': start, 'n': n, 'k': len(honest), 'data': b''.join(out), 'forged': forged}
        return self.header_lie

    # ---- index ---------------------------------------------------------------------------------------
    def _mempool_height(self, tx):
        for i in tx.ins:
            p = self.txs.get(i.prev_txid)
            if p is not None and p.height is None:
                return -1
        return 0

    def history(self, address, truthful=False):
        """What the hub REPORTS for the address (including Byzantine height lies), or with `truthful` what the
        chain really says."""
        conf, mem = [], []
        for txid in self.addr_txs.get(address, ()):
            tx = self.txs[txid]
            if tx.height is None:
                mem.append(tx)
            else:
                conf.append(tx)
        conf.sort(key=lambda t: (t.height, t.pos))
        if self.mempool_order == 'txid':
            mem.sort(key=lambda t: t.txid)
        else:
            mem.sort(key=lambda t: t.seq)
        if truthful:
            out = [(t.txid, t.height) for t in conf]
        else:
            out = [(t.txid, t.height + self.height_shift.get(t.txid, 0) + self.hist_shift.get(t.txid, 0)) for t in conf]
        out += [(t.txid, self._mempool_height(t)) for t in mem]
        return out

    def history_string(self, address, truthful=False):
        return ''.join(f'{txid}:{height}:' for txid, height in self.history(address, truthful))

    def status(self, address):
        s = self.history_string(address)
        return hashlib.sha256(s.encode()).hexdigest() if s else None

    def unspent_wallet_outputs(self):
        """{(txid, n): TxOut} paying a wallet address that no transaction known to the hub spends."""
        return {op: o for op, o in self.wouts.items() if op not in self.spent}

    def changed_addresses(self):
        """Subscribed addresses whose status differs from the last one sent, in (chain, index) order."""
        out = []
        for a in sorted(self.subscribed, key=lambda x: self.wallet_addrs.get(x, (9, 0))):
            s = self.status(a)
            if s != self.subscribed[a]:
                out.append((a, self.subscribed[a], s))
        return out

    # ---- proofs --------------------------------------------------------------------------------------
    def genuine_merkle(self, txid):
        tx = self.txs[txid]
        if tx.height is None:
            return {'block_height': -1}
        blk = self.blocks[tx.height]
        return {'merkle': [h[::-1].hex() for h in merkle_branch(blk.leaves, tx.pos)], 'pos': tx.pos,
                'block_height': tx.height}

    def merkle_for(self, requested):
        # a Byzantine hub asked about the id of bytes it altered itself answers with the original's proof
        txid = self.alias.get(requested, requested)
        m = self.genuine_merkle(txid)
        spec = self.proof_mut.get(txid)
        if spec is not None and 'merkle' in m:
            m = self.mutate_proof(txid, m, spec)
        if txid in self.height_shift and 'merkle' in m and isinstance(m.get('block_height'), int):
            m['block_height'] += self.height_shift[txid]
        self.served_merkle[requested] = m
        return m

    def mutate_proof(self, txid, m, spec):
        kind = spec['kind']
        branch = list(m['merkle'])
        tx = self.txs[txid]
        blk = self.blocks[tx.height]
        if kind == 'branch_elem' and branch:
            i = spec.get('i', 0) % len(branch)
            b = bytearray(bytes.fromhex(branch[i]))
            b[spec.get('byte', 0) % 32] ^= 1 << (spec.get('bit', 0) % 8)
            branch[i] = bytes(b).hex()
            m['merkle'] = branch
        elif kind == 'pos_bit':
            m['pos'] ^= 1 << (spec.get('bit', 0) % (len(branch) + 2))
        elif kind == 'shorten' and branch:
            m['merkle'] = branch[:-1] if spec.get('end', True) else branch[1:]
        elif kind == 'lengthen':
            extra = bytes.fromhex(spec.get('extra', '11' * 32)).hex()
            m['merkle'] = branch + [extra] if spec.get('end', True) else [extra] + branch
        elif kind == 'other_tx' and len(blk.txids) > 1:
            j = spec.get('j', 1) % len(blk.txids)
            if j == tx.pos:
                j = (j + 1) % len(blk.txids)
            m['merkle'] = [h[::-1].hex() for h in merkle_branch(blk.leaves, j)]
            m['pos'] = j
        elif kind == 'other_branch_same_pos' and len(blk.txids) > 1:
            j = spec.get('j', 1) % len(blk.txids)
            if j == tx.pos:
                j = (j + 1) % len(blk.txids)
            m['merkle'] = [h[::-1].hex() for h in merkle_branch(blk.leaves, j)]
        elif kind == 'no_merkle':
            del m['merkle']
            if spec.get('drop_pos'):
                m.pop('pos', None)
        elif kind == 'empty_branch':
            m['merkle'] = []
            m['pos'] = 0 if spec.get('zero_pos', True) else m['pos']
        elif kind == 'dict_height_only':
            # genuine branch/pos, only the dict's own block_height field lies
            m['block_height'] = m['block_height'] + int(spec.get('delta', 1))
        elif kind == 'dict_other_block':
            # dict names another block and carries a branch that is genuine for THAT block
            real = [b.height for b in self.blocks if b.txids and b.height != tx.height]
            if real:
                want = tx.height + int(spec.get('delta', 1))
                h2 = min(real, key=lambda h: (abs(h - want), h))
                blk2 = self.blocks[h2]
                j = min(tx.pos, len(blk2.txids) - 1)
                m['merkle'] = [h[::-1].hex() for h in merkle_branch(blk2.leaves, j)]
                m['pos'] = j
                m['block_height'] = h2
        elif kind == 'dict_height_type':
            how = spec.get('how', 'missing')
            h = m['block_height']
            if how == 'missing':
                del m['block_height']
            elif how == 'string':
                m['block_height'] = str(h)
            elif how == 'negative':
                m['block_height'] = -h
            elif how == 'none':
                m['block_height'] = None
            elif how == 'huge':
                m['block_height'] = 10 ** 9
            elif how == 'zero':
                m['block_height'] = 0
        return m

    def raw_for(self, txid):
        tx = self.txs[txid]
        spec = self.raw_mut.get(txid)
        raw = tx.raw
        if spec is not None:
            raw = self.alter_raw(tx, spec)
            new_id = txhash_from_raw(raw)[::-1].hex()
            if new_id != txid:
                self.alias[new_id] = txid
        self.served_raw[txid] = raw
        return raw

    @staticmethod
    def alter_raw(tx, spec):
        """Re-serialize the transaction with one field changed (structure stays parseable)."""
        where = spec.get('where', 'amount')
        ins = [TxIn(i.prev_txid, i.prev_n, i.script_sig, i.sequence, i.witness) for i in tx.ins]
        outs = [TxOut(o.amount, o.script) for o in tx.outs]
        version, locktime = tx.version, tx.locktime
        k = spec.get('k', 0)
        if where == 'amount':
            outs[k % len(outs)].amount ^= 1 << (spec.get('bit', 0) % 40)
        elif where == 'locktime':
            locktime ^= 1 << (spec.get('bit', 0) % 32)
        elif where == 'version':
            version ^= 1 << (1 + spec.get('bit', 0) % 30)
        elif where == 'prevout':
            i = ins[k % len(ins)]
            b = bytearray(bytes.fromhex(i.prev_txid))
            b[spec.get('bit', 0) % 32] ^= 0x80
            i.prev_txid = bytes(b).hex()
        elif where == 'script_sig':
            i = ins[k % len(ins)]
            if len(i.script_sig) > 2:
                b = bytearray(i.script_sig)
                b[-1] ^= 1
                i.script_sig = bytes(b)
            else:
                i.sequence ^= 1
        elif where == 'sequence':
            ins[k % len(ins)].sequence ^= 1 << (spec.get('bit', 0) % 32)
        elif where == 'witness':
            done = False
            for i in ins:
                if i.witness:
                    it = bytearray(i.witness[0])
                    if it:
                        it[0] ^= 1
                        i.witness = [bytes(it)] + list(i.witness[1:])
                        done = True
                        break
            if not done:
                locktime ^= 1
        raw, _ = serialize_tx(version, ins, outs, locktime, tx.segwit)
        return raw

    # ---- RPC surface -----------------------------------------------------------------------------------
    METHODS = (
        'blockchain.address.subscribe', 'blockchain.address.unsubscribe', 'blockchain.address.get_history',
        'blockchain.transaction.get_batch', 'blockchain.transaction.get', 'blockchain.transaction.info',
        'blockchain.transaction.get_height', 'blockchain.transaction.get_merkle', 'blockchain.block.headers',
        'blockchain.headers.subscribe', 'server.version', 'server.features', 'server.ping',
        'server.peers.subscribe', 'blockchain.peers.subscribe',
    )

    def handle(self, method, args):
        self.stats[method] = self.stats.get(method, 0) + 1
        if method == 'blockchain.address.subscribe':
            out = []
            for a in args:
                s = self.status(a)
                self.subscribed[a] = s
                out.append(s)
            return out
        if method == 'blockchain.address.unsubscribe':
            self.subscribed.pop(args[0], None)
            return True
        if method == 'blockchain.address.get_history':
            out = []
            for txid, height in self.history(args[0]):
                e = {'tx_hash': txid, 'height': height}
                if height <= 0:
                    e['fee'] = 1000
                out.append(e)
            return out
        if method == 'blockchain.transaction.get_batch':
            assert len(args) <= 100, 'batch larger than the hub accepts'
            return {txid: [self.raw_for(txid).hex(), self.merkle_for(txid)] for txid in args if txid in self.txs}
        if method == 'blockchain.transaction.get':
            return self.raw_for(args[0]).hex()
        if method == 'blockchain.transaction.info':
            return [self.raw_for(args[0]).hex(), self.merkle_for(args[0])]
        if method == 'blockchain.transaction.get_height':
            tx = self.txs.get(args[0])
            return None if tx is None else (-1 if tx.height is None else tx.height)
        if method == 'blockchain.transaction.get_merkle':
            return self.merkle_for(args[0])
        if method == 'blockchain.block.headers':
            start, count = args[0], args[1]
            b64 = bool(args[3]) if len(args) > 3 else False
            lie = self.header_lie
            if lie is not None and lie['start'] == start and count * HEADER_SIZE >= len(lie['data']):
                self.header_lie = None                      # one answer; honest again afterwards
                self.header_lies_served.append(lie)
                data = lie['data']
                count = len(data) // HEADER_SIZE
            else:
                count = max(0, min(count, 2016, len(self.blocks) - start))
                data = b''.join(b.header for b in self.blocks[start:start + count]) if count else b''
            res = {'count': count, 'max': 2016}
            if b64:
                c = zlib.compressobj(wbits=-15)
                res['base64'] = base64.b64encode(c.compress(data) + c.flush()).decode()
            else:
                res['hex'] = data.hex()
            return res
        if method == 'blockchain.headers.subscribe':
            tip = self.blocks[-1]
            return {'hex': tip.header.hex(), 'height': tip.height}
        if method == 'server.version':
            return ['simverif reference hub', '0.107.0']
        if method == 'server.features':
            return {'hosts': {}, 'server_version': '0.107.0', 'protocol_min': '0.54.0', 'protocol_max': '0.199.0',
                    'genesis_hash': dsha256(self.blocks[0].header)[::-1].hex() if self.blocks else None,
                    'hash_function': 'sha256', 'trending_algorithm': 'fast_ar', 'payment_address': '',
                    'daily_fee': '0', 'description': 'in-process reference hub', 'donation_address': ''}
        if method in ('server.ping',):
            return None
        if method in ('server.peers.subscribe', 'blockchain.peers.subscribe'):
            return []
        raise KeyError(f'reference hub: method {method!r} not implemented')


# ===================================================================================================
# wallet_sync environment: real Ledger/Database/Headers/Account wired to the hub
# ===================================================================================================

RETRIABLE = ('blockchain.address.get_history', 'blockchain.transaction.get_batch',
             'blockchain.transaction.get_merkle', 'blockchain.block.headers')

LATENCY_MODES = {
    'fast': (0.0005, 0.003),
    'lan': (0.001, 0.03),
    'wan': (0.02, 0.4),
    'wild': (0.0005, 2.5),
}


def innermost_frames(exc, repo_marker='/lbry/'):
    """(innermost lbry function, innermost function in the property's anchor files) of a traceback."""
    tb = exc.__traceback__
    inner = anchored = None
    while tb is not None:
        fn = tb.tb_frame.f_code.co_filename
        name = tb.tb_frame.f_code.co_name
        if repo_marker in fn:
            inner = name
            if fn.endswith(('/wallet/ledger.py', '/wallet/database.py', '/wallet/account.py')) and \
                    not name.startswith('<') and name not in ('run', '__run_transaction', '_AIOSQLite__run_transaction'):
                anchored = name
        tb = tb.tb_next
    return inner, anchored


class WalletSync:
    """One wallet incarnation (Ledger + sqlite + Headers + one HD account) talking to a `Hub`."""

    def __init__(self, run, loop, scenario, hub=None):
        import lbry.wallet.database as dbm
        from simverif.core.loop import _InertExecutor
        dbm.ThreadPoolExecutor = _InertExecutor
        dbm.ReaderExecutorClass = _InertExecutor
        from lbry.wallet.ledger import Ledger
        from lbry.wallet.header import UnvalidatedHeaders
        from lbry.wallet.network import Network

        self.run, self.loop, self.scenario = run, loop, scenario
        self.hub = hub or Hub(scenario.get('mempool_order', 'arrival'))
        self.lat = LATENCY_MODES[scenario.get('latency', 'lan')]
        self.fault_p = float(scenario.get('fault_p', 0.0))
        self.inflight = 0
        self.idle = asyncio.Event()
        self.idle.set()
        self.addr_mark = {}
        self.failures = []            # (vtime, ExcType, innermost lbry fn, anchored fn, message)
        self.header_tasks = []
        self.headers_delivered = 0    # number of headers handed to the wallet by notification
        self.closed = False
        self._addr_cache = {}
        self.known_before = None
        env = self

        ledger_cls = _ledger_class(Ledger)

        class SimHeaders(UnvalidatedHeaders):
            genesis_hash = None
            checkpoints = {}

        class _Client:
            server_address_and_port = ('reference-hub', 50001)

            @staticmethod
            def is_closing():
                return False

            @staticmethod
            def abort():  # pragma: no cover - only on subscribe timeouts, which are never injected
                raise AssertionError('client.abort() called: subscribe timed out?')

        class SimNetwork(Network):
            @property
            def is_connected(self):
                return True

            def rpc(self, list_or_method, args, restricted=True, session=None):
                return env._call(list_or_method, list(args))

        self.network = SimNetwork(None)
        self.network.client = _Client()
        self.network.running = True
        self.db = dbm.Database(':memory:')
        self.headers = SimHeaders(':memory:')
        self.ledger = ledger_cls({'db': self.db, 'headers': self.headers, 'network': self.network,
                                  'data_path': '/nonexistent'})
        self.network.ledger = self.ledger
        self.account = None
        self.wallet = None

        # SimLoop means to install its own factory (deterministic task names + loop.task_failures), but
        # BaseEventLoop.__init__ leaves an instance attribute `_task_factory = None` that shadows the method,
        # so nothing is installed.  Call the method through the class; works with or without a core fix.
        installed = loop.get_task_factory()
        unbound = None
        for name in ('_sim_task_factory', '_task_factory'):
            cand = type(loop).__dict__.get(name)
            if callable(cand):
                unbound = cand
                break

        def factory(loop_, coro, **kw):
            if installed is not None:
                task = installed(loop_, coro, **kw)
            elif unbound is not None:
                task = unbound(loop, loop_, coro, **kw)
            else:  # pragma: no cover
                task = asyncio.Task(coro, loop=loop_, **kw)
            task.add_done_callback(self._task_done)
            return task
        loop.set_task_factory(factory)

    # ---- lifecycle -------------------------------------------------------------------------------------
    async def open(self, headers=True):
        from lbry.wallet.wallet import Wallet
        from lbry.wallet.account import Account
        from lbry.wallet.bip32 import PrivateKey
        sc = self.scenario
        await self.db.open()
        if headers:
            await self.open_headers()
        seed = int(sc.get('wallet_seed', 1)).to_bytes(32, 'big')
        root = PrivateKey.from_seed(self.ledger, seed)
        self.wallet = Wallet()
        self.recv_gap = int(sc.get('recv_gap', 20))
        self.change_gap = int(sc.get('change_gap', 6))
        self.account = Account.from_dict(self.ledger, self.wallet, {
            'name': 'sim', 'private_key': root.extended_key_string(), 'modified_on': 0,
            'address_generator': {'name': 'deterministic-chain',
                                  'receiving': {'gap': self.recv_gap, 'maximum_uses_per_address': 1},
                                  'change': {'gap': self.change_gap, 'maximum_uses_per_address': 1}}})
        self.gaps = {0: self.recv_gap, 1: self.change_gap}

    async def open_headers(self, checkpoints=None):
        """Open the header store.  With `checkpoints` ({chunk start: hash}) it is a checkpointed store whose chunks
        are not back-filled yet (Headers.open zero-fills it) and on-demand fetching is wired to the hub exactly
        as Ledger.initial_headers_sync does."""
        if checkpoints:
            self.headers.checkpoints = dict(checkpoints)
        await self.headers.open()
        if checkpoints:
            from functools import partial
            self.headers.chunk_getter = partial(self.network.retriable_call, self.network.get_headers,
                                                count=1000, b64=True)

    def start(self):
        """What Ledger.join_network does: subscribe the accounts as an update task."""
        return self.ledger._update_tasks.add(self.ledger.subscribe_accounts())

    def close(self):
        if self.closed:
            return
        self.closed = True
        try:
            conn = self.db.db.writer_connection if self.db.db is not None else None
            if conn is not None:
                conn.close()
        except Exception:  # pragma: no cover
            pass

    # ---- addresses ---------------------------------------------------------------------------------------
    def address(self, chain, index):
        key = (chain, index)
        a = self._addr_cache.get(key)
        if a is None:
            a = self._addr_cache[key] = self.account.address_managers[chain].public_key.child(index).address
            self.hub.register_address(a, chain, index)
        return a

    def max_fundable(self, chain):
        return self.hub.last_used(chain) + self.gaps[chain]

    # ---- observations ----------------------------------------------------------------------------------------
    def _task_done(self, task):
        if task.cancelled():
            return
        exc = task._exception
        if exc is not None:
            inner, anchored = innermost_frames(exc)
            name = type(exc).__name__
            if type(exc).__module__ not in ('builtins', 'asyncio.exceptions'):
                name = f'{type(exc).__module__}.{name}'        # e.g. struct.error
            self.failures.append((round(self.loop.elapsed(), 6), name, inner, anchored, str(exc)[:200]))

    def cause(self):
        """Small stable description of the first product task failure (for violation sites)."""
        for _, etype, inner, anchored, _ in self.failures:
            if inner is None:
                continue
            return f'{etype}@{anchored or inner}'
        return 'none'

    def failure_text(self, limit=3):
        return '; '.join(f'{e}@{inner}(in {anch}): {msg}' for _, e, inner, anch, msg in self.failures[:limit])

    # ---- transport ---------------------------------------------------------------------------------------------
    def _inc(self):
        self.inflight += 1
        self.idle.clear()

    def _dec(self):
        self.inflight -= 1
        if self.inflight == 0:
            self.idle.set()

    def _latency(self, rng):
        lo, hi = self.lat
        if hi > 1.0:   # heavy tail
            return lo + (hi - lo) * rng.random() ** 6
        return lo + (hi - lo) * rng.random()

    async def _call(self, method, args):
        key = str(args[0])[:16] if args else ''
        rng = self.run.rng('rpc.' + method, key)
        self._inc()
        try:
            await asyncio.sleep(self._latency(rng))
            if self.fault_p and method in RETRIABLE and rng.random() < self.fault_p:
                lost_reply = rng.random() < 0.5
                if lost_reply:
                    self.hub.handle(method, args)
                await asyncio.sleep(self._latency(rng) * 3)
                kind = 'timeout' if rng.random() < 0.7 else 'connection_error'
                self.run.faults['rpc_' + kind] += 1
                self.run.faults['rpc_fault:' + method.split('.')[-1]] += 1
                self.run.ev('rpc', method, key, kind)
                if kind == 'timeout':
                    raise asyncio.TimeoutError()
                raise ConnectionError('simulated connection error')
            result = self.hub.handle(method, args)
            down = self._latency(rng)
            if method == 'blockchain.address.subscribe':
                when = self.loop.time() + down
                for a in args:
                    self.addr_mark[a] = max(self.addr_mark.get(a, 0.0), when)
            await asyncio.sleep(down)
            self.run.ev('rpc', method, key, len(args))
            return result
        finally:
            self._dec()

    def notify(self, address, status, delay, tag='current'):
        """Schedule an address-status notification; notifications for one address stay FIFO and never
        overtake the subscribe reply that registered the address."""
        when = max(self.loop.time() + delay, self.addr_mark.get(address, 0.0) + 1e-4)
        self.addr_mark[address] = when
        self._inc()
        self.loop.call_at(when, self._deliver_status, address, status, tag)

    def _deliver_status(self, address, status, tag):
        try:
            ctl = self.network._on_status_controller
            event = [address, status]
            merged = ctl._last_event == event
            lock = self.ledger._address_update_locks.get(address)
            if lock is not None and lock.locked():
                self.run.probes['notification_overtook_batch_fetch'] += 1
            if tag == 'stale':
                self.run.probes['stale_status'] += 1
            elif tag == 'dup':
                self.run.probes['duplicate_notification_merged' if merged else 'duplicate_notification'] += 1
            self.run.ev('notify', self.hub.wallet_addrs.get(address), (status or '-')[:8], tag)
            ctl.add(event)
        finally:
            self._dec()

    def deliver_header(self, height, delay=0.0, raw=None):
        """Header notification for `height` (the product's own listener is `Ledger.receive_header`).

        Python >= 3.11 note: `StreamController.add` wraps coroutine listeners in `asyncio.wait(coros)`, which
        now raises TypeError, so the notification is handed to the listener directly (same coroutine the
        controller would have run)."""
        if raw is None:
            raw = self.hub.blocks[height].header    # else: a Byzantine announcement (any height, any 112 bytes)
        self._inc()

        async def go():
            try:
                if delay:
                    await asyncio.sleep(delay)
                await self.ledger.receive_header([{'height': height, 'hex': raw.hex()}])
                self.run.ev('header', height, len(self.headers))
            finally:
                self._dec()
        t = self.loop.create_task(go())
        self.header_tasks.append(t)
        return t

    def busy(self):
        return self.inflight > 0 or len(self.ledger._update_tasks) > 0

    async def quiesce(self, bound):
        """Wait until no hub message is pending/in flight and every update task has ended.
        -> True, or False when `bound` virtual seconds were not enough (liveness failure)."""
        deadline = self.loop.time() + bound
        while True:
            left = deadline - self.loop.time()
            if left <= 0:
                return False
            try:
                if self.inflight > 0:
                    await asyncio.wait_for(self.idle.wait(), left)
                elif len(self.ledger._update_tasks) > 0:
                    await asyncio.wait_for(self.ledger._update_tasks.done.wait(), left)
                else:
                    # one more turn of the loop: a finished task may have scheduled follow-up work
                    await asyncio.sleep(0)
                    if not self.busy():
                        return True
            except asyncio.TimeoutError:
                return False

    # ---- direct sqlite reads (independent of the product's query helpers) -----------------------------------
    def sql(self, query, params=()):
        cur = self.db.db.writer_connection.execute(query, params)
        return [tuple(r.values()) if isinstance(r, dict) else tuple(r) for r in cur.fetchall()]


_LEDGER_CLASSES = {}


def _ledger_class(Ledger):
    """Constant-only Ledger sub-class (registered once per process: LedgerRegistry forbids duplicates)."""
    cls = _LEDGER_CLASSES.get('simnet')
    if cls is None:
        from lbry.wallet.ledger import LedgerRegistry
        existing = LedgerRegistry.ledgers.get('lbc_simnet')
        if existing is not None and existing.checkpoints == {} and existing.__mro__[1] is Ledger:
            cls = existing          # another harness of this process registered the same constant-only class
        elif existing is not None:
            class SimHubLedger(Ledger):
                network_name = 'simnet_hub'
                checkpoints = {}
            cls = SimHubLedger
        else:
            class SimLedger(Ledger):
                network_name = 'simnet'
                checkpoints = {}
            cls = SimLedger
        _LEDGER_CLASSES['simnet'] = cls
    return cls
