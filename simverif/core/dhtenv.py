"""dht_net environment: real lbry.dht Nodes on the simulated datagram network, wire monitor,
hostile reply rewriting, thin announcers (DESIGN.md §7 C12 / C17)."""
import asyncio

from . import bref
from .net import SimDatagramNet

K = 8


def node_addr(i):
    return f"{1 + i // 250}.{2 + (i * 7) % 200}.{3 + i % 50}.{1 + i % 250}", 4444


class DhtWorld:
    def __init__(self, run, loop, net_cfg=None, monitor=True):
        from lbry.dht.node import Node
        from lbry.dht.peer import PeerManager
        self.Node, self.PeerManager = Node, PeerManager
        self.run = run
        self.loop = loop
        self.net = SimDatagramNet(run, loop, net_cfg)
        self.nodes = []             # real Node objects
        self.addr_of = {}           # node index -> (ip, udp port)
        self.index_of = {}          # addr -> node index
        self.hostile = {}           # addr -> behaviour name
        self.hostile_rate = 1.0
        self.requests_seen = {}     # rpc_id -> (method, key, requester addr, requester node id)
        self.requests_by_node = {}  # src addr -> count of find requests sent (for the termination bound)
        self.replied_from = {}      # receiver addr -> set of addrs a *response* was delivered from
        self.pings_by_node = {}     # src addr -> pings sent
        self.replied_ids = {}       # receiver addr -> {source ip: set of node ids responses from that host carried}
        self.endless = {}           # hostile addr -> counter (behaviours that never run out of fresh material)
        self.monitor = monitor
        self.monitor_checked = 0
        self.fabricated = set()     # node ids invented by hostile replies
        self.net.on_send = self._on_send
        self.net.on_deliver = self._on_deliver
        self.corrupt = None         # fn(src, dst, data) -> list of datagrams to deliver instead (C17 stage)
        self._hrng = run.rng('hostile')

    # ---- nodes ----------------------------------------------------------------------------------
    def add_node(self, i, node_id, bootstrap=False, split_under=1, tcp_port=None):
        ip, port = node_addr(i)
        pm = self.PeerManager(self.loop)
        node = self.Node(self.loop, pm, node_id, port, port, tcp_port if tcp_port is not None else 3333 + (i % 60), ip,
                         split_buckets_under_index=split_under, is_bootstrap_node=bootstrap)
        node._sim_index = i
        while len(self.nodes) <= i:
            self.nodes.append(None)
        self.nodes[i] = node
        self.addr_of[i] = (ip, port)
        self.index_of[(ip, port)] = i
        return node

    def start_node(self, i, known):
        node = self.nodes[i]
        node.start(self.addr_of[i][0], [self.addr_of[k] for k in known])

    def stop_all(self):
        for n in self.nodes:
            if n is not None:
                try:
                    n.stop()
                except Exception:  # noqa
                    pass

    # ---- wire hooks ---------------------------------------------------------------------------------
    def _on_send(self, src, dst, data):
        run = self.run
        msg = None
        if src in self.index_of:
            try:
                msg = bref.parse_message(data)
            except bref.RefError as e:
                msg = None
                if self.monitor and src not in self.hostile:
                    self._monitor_bad_outgoing(src, dst, data, e)
            if msg is not None and self.monitor:
                self._monitor_outgoing(src, dst, data, msg)
            if msg is not None and msg['kind'] == 'request' and msg['method'] in (b'findNode', b'findValue'):
                self.requests_by_node[src] = self.requests_by_node.get(src, 0) + 1
                self.requests_seen[msg['rpc_id']] = (msg['method'], msg['args'][0], src, msg['node_id'])
                if len(self.requests_seen) > 4096:
                    for k in list(self.requests_seen)[:1024]:
                        del self.requests_seen[k]
            if msg is not None and msg['kind'] == 'request' and msg['method'] == b'ping':
                self.pings_by_node[src] = self.pings_by_node.get(src, 0) + 1
            if self.hostile.get(src) == 'reply_port_all' and msg is not None and msg['kind'] == 'response':
                # a host whose replies ALWAYS leave from another port than the one it listens on (every method, pings too)
                self.run.faults['hostile_reply_port_all'] += 1
                self.net.in_flight += 1
                self.loop.call_later(0.01, self.net._deliver, (src[0], 5555), dst, data)
                return None
            if src in self.hostile and msg is not None and msg['kind'] == 'response':
                req = self.requests_seen.get(msg['rpc_id'])
                if req is not None and self._hrng.random() < self.hostile_rate:
                    return self._hostile_rewrite(src, dst, data, msg, req)
        return data

    def _on_deliver(self, src, dst, data, ep):
        items = None
        if self.corrupt is not None:
            items = self.corrupt(src, dst, data, ep)
        if dst in self.index_of and self._looks_like_response(data):
            # "replied" = a datagram that reads as a response (however odd its payload) reached dst from
            # that host; the source port is not part of a contact's identity (NAT rebinding)
            self.replied_from.setdefault(dst, set()).add(src[0])
            nid = self._response_node_id(data)
            if nid is not None:
                self.replied_ids.setdefault(dst, {}).setdefault(src[0], set()).add(nid)
        return items

    @staticmethod
    def _response_node_id(data):
        try:
            root = bref.decode(data)
            nid = root.get(2, root.get(b'2')) if isinstance(root, dict) else None
            return nid if isinstance(nid, bytes) else None
        except bref.RefError:
            try:
                from lbry.dht.serialization.datagram import decode_datagram
                return decode_datagram(data).node_id
            except Exception:  # noqa
                return None

    @staticmethod
    def _looks_like_response(data):
        try:
            root = bref.decode(data)
            return isinstance(root, dict) and (root.get(0) == 1 or root.get(b'0') == 1)
        except bref.RefError:
            pass
        try:
            from lbry.dht.serialization.datagram import decode_datagram, ResponseDatagram
            return isinstance(decode_datagram(data), ResponseDatagram)
        except Exception:  # noqa
            return False

    # ---- C17 wire monitor (a): everything a real node sends -------------------------------------------
    def _monitor_bad_outgoing(self, src, dst, data, err):
        self.run.violation('C17.sent_malformed',
                           f'real node {src} sent a datagram the independent reader rejects ({err}): {data[:200]!r}',
                           what=_shape(data))

    def _monitor_outgoing(self, src, dst, data, msg):
        from lbry.dht.serialization.datagram import decode_datagram, RequestDatagram, ResponseDatagram, ErrorDatagram
        run = self.run
        self.monitor_checked += 1
        run.probes['monitor_' + msg['kind']] += 1
        try:
            got = decode_datagram(data)
        except Exception as e:  # noqa
            run.violation('C17.own_datagram_undecodable', f'product cannot decode a datagram a real node sent: '
                          f'{type(e).__name__}: {e}: {data[:200]!r}', exc=type(e).__name__, msg=msg['kind'])
            return
        ok = got.rpc_id == msg['rpc_id'] and got.node_id == msg['node_id']
        if msg['kind'] == 'request':
            ok = ok and isinstance(got, RequestDatagram) and got.method == msg['method'] and got.args == msg['args']
        elif msg['kind'] == 'response':
            ok = ok and isinstance(got, ResponseDatagram) and got.response == msg['response']
            r = msg['response']
            if isinstance(r, dict):
                from lbry.dht.serialization.datagram import decode_compact_address
                for k, v in r.items():
                    if len(k) == 48 and isinstance(v, list):
                        for c in v:
                            run.probes['monitor_compact'] += 1
                            try:
                                if tuple(decode_compact_address(c)) != bref.compact_decode(c):
                                    run.violation('C17.compact_mismatch', f'compact address {c.hex()} decodes differently')
                            except ValueError:
                                pass
        else:
            ok = ok and isinstance(got, ErrorDatagram) and got.exception_type.encode() == msg['exception_type'] \
                and got.response.encode() == msg['response']
        if not ok:
            run.violation('C17.decode_mismatch', f'product and reference read a {msg["kind"]} differently: {data[:200]!r}',
                          msg=msg['kind'])
            return
        try:
            again = bref.encode(bref.decode(data))
        except bref.RefError:
            again = None
        if again != data:
            run.violation('C17.reencode_mismatch', f're-encoding the reference structure differs: {data[:200]!r}',
                          msg=msg['kind'])

    # ---- hostile replies ----------------------------------------------------------------------------
    def _hostile_rewrite(self, src, dst, data, msg, req):
        run = self.run
        r = self._hrng
        method, key, req_addr, req_id = req
        beh = self.hostile[src]
        if beh == 'mixed':
            beh = r.choice(HOSTILE_BEHAVIOURS)
        run.faults['hostile_' + beh] += 1
        rpc_id, me = msg['rpc_id'], msg['node_id']

        def resp(value, rid=rpc_id, nid=me):
            return bref.encode({0: 1, 1: rid, 2: nid, 3: value})

        def fab_triples(n, ip=None, port=None, closer=True):
            out = []
            kint = int.from_bytes(key, 'big')
            for j in range(n):
                d = r.getrandbits(max(8, 376 - 8 * j)) if closer else r.getrandbits(384)
                nid = (kint ^ d).to_bytes(48, 'big')
                self.fabricated.add(nid)
                out.append([nid, (ip or f"{r.randint(11, 200)}.{r.randint(0, 255)}.{r.randint(0, 255)}.{r.randint(1, 254)}").encode(),
                            port or r.randint(1024, 65535)])
            return out

        def wrap(contacts):
            if method == b'findNode':
                return resp(contacts)
            return resp({b'token': b'\x00' * 48, b'contacts': contacts, b'p': 0, b'protocolVersion': 1})

        if beh == 'silent':
            return None
        if beh == 'garbage':
            return bytes(r.getrandbits(8) for _ in range(r.randint(1, 200)))
        if beh == 'truncated':
            return data[:r.randint(1, max(1, len(data) - 1))]
        if beh == 'wrong_types':
            return resp(r.choice([7, [1, 2, 3], [[b'x']], {b'token': 5}, {b'contacts': b'zz', b'token': b'\x00' * 48},
                                  [[b'a' * 48, 5, b'x']], {b'token': b'\x00' * 48, key: 5},
                                  {b'token': b'\x00' * 48, key: [5, 6]}]))
        if beh == 'short_triples':
            return wrap([[t[0], t[1]] for t in fab_triples(3)])
        if beh == 'long_triples':
            return wrap([t + [1] for t in fab_triples(3)])
        if beh == 'reserved_ips':
            return wrap(fab_triples(4, ip=r.choice(['10.0.0.1', '127.0.0.1', '0.0.0.0', '192.168.1.5', '255.255.255.255',
                                                    '224.0.0.1', '169.254.1.1', 'not-an-ip', ''])))
        if beh == 'own_id':
            return wrap([[req_id, req_addr[0].encode(), req_addr[1]]] + fab_triples(2))
        if beh == 'own_addr':
            t = fab_triples(1)[0]
            return wrap([[t[0], req_addr[0].encode(), req_addr[1]]])
        if beh == 'low_ports':
            return wrap(fab_triples(4, port=r.choice([0, 1, 80, 1023, -5, 65536, 70000])))
        if beh == 'closer_fabricated':
            return wrap(fab_triples(20))
        if beh == 'alias_honest':
            # made-up ids close to the key, each paired with the address of an HONEST node: that node answers the
            # probe (under its own id), so the endpoint looks alive although the contact named never replied
            honest = sorted(a for a in self.index_of if a not in self.hostile and a != req_addr)
            if honest:
                out = []
                for t in fab_triples(r.choice([1, 2, 4])):
                    a = r.choice(honest)
                    out.append([t[0], a[0].encode(), a[1]])
                return wrap(out)
            return wrap(fab_triples(2))
        if beh == 'key_as_id':
            # the key itself as node id, at the hostile node's own endpoint: "found" without a single request to it
            return wrap([[key, src[0].encode(), src[1]]] + fab_triples(r.choice([0, 2])))
        if beh == 'endless_closer':
            # never runs out: every reply names ONE new contact, closer to the key than all earlier ones, at the
            # hostile node's own endpoint (the real node behind it answers the next probe, which is rewritten again)
            c = self.endless[src] = self.endless.get(src, 0) + 1
            kint = int.from_bytes(key, 'big')
            d = (1 << 376) - c          # strictly closer every time, and 2**376 steps before it runs out
            nid = (kint ^ d).to_bytes(48, 'big')
            self.fabricated.add(nid)
            return wrap([[nid, src[0].encode(), src[1]]])
        if beh == 'append_far_fabricated':
            # the genuine answer plus made-up contacts far from the key: they sort behind the probe window and
            # are still un-probed (status unknown) when the search ends
            genuine = msg['response'] if method == b'findNode' else msg['response'].get(b'contacts', [])
            genuine = [t for t in genuine if isinstance(t, list)]
            return wrap(list(genuine) + fab_triples(r.choice([4, 8, 12]), closer=False))
        if beh == 'short_ids':
            return wrap([[b'ab' * r.randint(0, 30), b'44.44.44.44', 4444]])
        if beh == 'error':
            text = r.choice([b'boom', 'café ☃'.encode(), b'x' * 2000, b'Invalid token'])
            return bref.encode({0: 2, 1: rpc_id, 2: me, 3: b"<class 'ValueError'>", 4: text})
        if beh == 'error_bad_fields':
            return bref.encode({0: 2, 1: rpc_id, 2: me, 3: r.choice([5, [b'x'], b'\xff\xfe']), 4: r.choice([7, b'\xff', {}])})
        if beh == 'wrong_rpc_id':
            return resp(msg['response'], rid=bytes(r.getrandbits(8) for _ in range(20)))
        if beh == 'claims_requester_id':
            return resp(msg['response'], nid=req_id)
        if beh == 'other_address':
            fake = (f"{r.randint(11, 200)}.1.1.1", 4444)
            self.net.in_flight += 1
            self.loop.call_later(0.01, self.net._deliver, fake, dst, data)
            return None
        if beh == 'other_port':
            fake = (src[0], r.choice([80, 1023, 5555]))
            self.net.in_flight += 1
            self.loop.call_later(0.01, self.net._deliver, fake, dst, data)
            return None
        if method == b'findValue':
            def compact(port=None, ip=None, nid=None):
                ipb = bytes(int(x) for x in (ip or f"{r.randint(11, 200)}.{r.randint(0, 255)}.{r.randint(0, 255)}.{r.randint(1, 254)}").split('.'))
                return ipb + (port if port is not None else r.randint(1024, 65535)).to_bytes(2, 'big') + \
                    (nid or bytes(r.getrandbits(8) for _ in range(48)))
            if beh == 'no_token':
                return resp({b'contacts': [], key: [compact()]})
            if beh == 'bogus_p':
                return resp({b'token': b'\x00' * 48, b'p': r.choice([-1, 10 ** 30, b'two', [1]]), key: [compact() for _ in range(8)]})
            if beh == 'bad_compact':
                return resp({b'token': b'\x00' * 48, b'p': 1,
                             key: [r.choice([b'', b'short', compact() + b'x', compact(port=0), compact(ip='10.0.0.1'),
                                             compact(ip='127.0.0.1'), compact(port=80), compact(port=1023)])
                                   for _ in range(r.randint(1, 8))]})
            if beh == 'dup_compact':
                c = compact()
                return resp({b'token': b'\x00' * 48, b'p': 3, key: [c] * 8})
            if beh == 'many_pages':
                return resp({b'token': b'\x00' * 48, b'p': 12, key: [compact() for _ in range(8)]})
            if beh == 'endless_pages':
                # never runs out: every page is full of fresh well-formed addresses and claims 2**40 pages
                self.endless[src] = self.endless.get(src, 0) + 1
                return resp({b'token': b'\x00' * 48, b'p': r.choice([2 ** 40, 2 ** 31, 10 ** 6]), b'contacts': [],
                             key: [compact(ip=f"{r.choice([11, 23, 45, 67, 89, 130])}.{r.randint(0, 255)}.{r.randint(0, 255)}."
                                              f"{r.randint(1, 254)}") for _ in range(8)]})
            if beh == 'requester_as_peer':
                return resp({b'token': b'\x00' * 48, b'p': 1, key: [compact(ip=req_addr[0], port=3333, nid=req_id)]})
        return resp(r.choice([b'pong', b'OK', [], {b'token': b''}]))


HOSTILE_BEHAVIOURS = ['silent', 'garbage', 'truncated', 'wrong_types', 'short_triples', 'long_triples', 'reserved_ips',
                      'own_id', 'own_addr', 'low_ports', 'closer_fabricated', 'append_far_fabricated', 'append_far_fabricated', 'short_ids', 'error', 'error_bad_fields',
                      'wrong_rpc_id', 'claims_requester_id', 'other_address', 'other_port', 'no_token', 'bogus_p',
                      'bad_compact', 'dup_compact', 'many_pages', 'requester_as_peer', 'misc',
                      'alias_honest', 'key_as_id', 'endless_closer', 'endless_pages', 'reply_port_all']


def _shape(data):
    return 'error' if data[:6] == b'di0ei2' else 'response' if data[:6] == b'di0ei1' else 'request' if data[:6] == b'di0ei0' else 'other'


class ThinAnnouncer(asyncio.DatagramProtocol):
    """Harness endpoint that announces like a node would: findValue (to obtain a token) then store."""

    def __init__(self, world, addr, node_id, tcp_port):
        self.world = world
        self.external_ip = addr[0]
        self.addr = addr
        self.node_id = node_id
        self.tcp_port = tcp_port
        self.transport = None
        self.waiting = {}
        self.stored_ok = False

    def connection_made(self, transport):
        self.transport = transport

    def datagram_received(self, data, addr):
        try:
            root = bref.decode(data)
        except bref.RefError:
            return
        t = root.get(0)
        if t == 0:
            # answer pings so that storing nodes keep considering us alive
            if root.get(3) == b'ping':
                self.transport.sendto(bref.encode({0: 1, 1: root[1], 2: self.node_id, 3: b'pong'}), addr)
            elif root.get(3) in (b'findNode', b'findValue'):
                val = [] if root.get(3) == b'findNode' else {b'token': b'\x11' * 48, b'contacts': [], b'p': 0}
                self.transport.sendto(bref.encode({0: 1, 1: root[1], 2: self.node_id, 3: val}), addr)
            return
        fut = self.waiting.pop(root.get(1), None)
        if fut is not None and not fut.done():
            fut.set_result(root)

    async def _rpc(self, dst, method, args, rng):
        rpc_id = bytes(rng.getrandbits(8) for _ in range(20))
        fut = self.world.loop.create_future()
        self.waiting[rpc_id] = fut
        self.transport.sendto(bref.encode({0: 0, 1: rpc_id, 2: self.node_id, 3: method, 4: args}), dst)
        return await asyncio.wait_for(fut, 5.0)

    async def announce(self, dst, blob_hash, rng):
        reply = await self._rpc(dst, b'findValue', [blob_hash, {b'p': 0, b'protocolVersion': 1}], rng)
        token = reply[3][b'token']
        reply = await self._rpc(dst, b'store', [blob_hash, token, self.tcp_port, self.node_id, 0,
                                                {b'protocolVersion': 1}], rng)
        self.stored_ok = reply.get(0) == 1 and reply.get(3) == b'OK'
        return self.stored_ok
