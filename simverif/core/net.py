"""Simulated networks (DESIGN.md §4.3): datagrams (loss, duplication, delay/reordering, partitions,
dead nodes, corruption stage) and ordered reliable byte streams with scheduler-drawn re-chunking."""
import asyncio
import collections


class DatagramTransport(asyncio.DatagramTransport):
    def __init__(self, net, addr, protocol):
        super().__init__()
        self.net = net
        self.addr = addr
        self.protocol = protocol
        self._closing = False

    def sendto(self, data, addr=None):
        if self._closing:
            return
        self.net.route(self.addr, tuple(addr), bytes(data))

    def is_closing(self):
        return self._closing

    def close(self):
        if self._closing:
            return
        self._closing = True
        self.net.unregister(self.addr, self)

    def abort(self):
        self.close()

    def get_extra_info(self, name, default=None):
        if name == 'sockname':
            return self.addr
        return default


class SimDatagramNet:
    """cfg keys: latency=(lo, hi) one-way seconds; loss, dup in [0,1]; slow_prob/slow_extra for
    occasional long delays (reordering); all draws come from per-link PRNG streams."""

    def __init__(self, run, loop, cfg=None):
        self.run = run
        self.loop = loop
        self.cfg = dict(latency=(0.005, 0.05), loss=0.0, dup=0.0, slow_prob=0.0, slow_extra=1.0)
        self.cfg.update(cfg or {})
        self.endpoints = {}
        self.dead = set()            # addresses that silently drop everything (crashed / stalled)
        self.partition = None        # callable(src, dst) -> bool blocked
        self.in_flight = 0
        self.sent = 0
        self.delivered = 0
        self.on_send = None          # fn(src, dst, data) -> data | None (None = swallowed); wire monitor / corruption
        self.on_deliver = None       # fn(src, dst, data, endpoint) -> None | [(data, tag), ...] queued instead (corruption stage)
        self.on_receive = None       # fn(endpoint, src, data, tag) -> bool handled (judge delivers itself)
        self.escapes = []            # (vtime, dst, exc type, src) exceptions that escaped datagram_received
        self.storm = False
        self._link_rng = {}
        loop.create_datagram_endpoint = self.create_datagram_endpoint

    # -- endpoint registration ------------------------------------------------------------------
    async def create_datagram_endpoint(self, protocol_factory, local_addr=None, remote_addr=None, **kwargs):
        protocol = protocol_factory()
        ip = getattr(protocol, 'external_ip', None) or (local_addr[0] if local_addr else '0.0.0.0')
        addr = (ip, local_addr[1])
        transport = DatagramTransport(self, addr, protocol)
        self.endpoints[addr] = transport
        protocol.connection_made(transport)
        return transport, protocol

    def attach(self, addr, protocol):
        """Attach a harness endpoint (thin announcer, hostile node) synchronously."""
        transport = DatagramTransport(self, addr, protocol)
        self.endpoints[addr] = transport
        protocol.connection_made(transport)
        return transport

    def unregister(self, addr, transport):
        if self.endpoints.get(addr) is transport:
            del self.endpoints[addr]

    # -- routing ------------------------------------------------------------------------------------
    def _rng(self, src, dst):
        key = (src, dst)
        r = self._link_rng.get(key)
        if r is None:
            r = self._link_rng[key] = self.run.rng('dgram.link', key)
        return r

    def route(self, src, dst, data):
        self.sent += 1
        if self.in_flight > self.cfg.get('max_in_flight', 20000):
            # event storm: more datagrams in flight than a finite network of this size can legitimately have
            # (e.g. a lookup spawning probes without bound).  Stop feeding it; the harness reports it.
            self.storm = True
            return
        if self.on_send is not None:
            data = self.on_send(src, dst, data)
            if data is None:
                return
        r = self._rng(src, dst)
        cfg = self.cfg
        if cfg['loss'] and r.random() < cfg['loss']:
            self.run.faults['dgram_loss'] += 1
            return
        lo, hi = cfg['latency']
        lat = lo + (hi - lo) * r.random()
        if cfg['slow_prob'] and r.random() < cfg['slow_prob']:
            lat += cfg['slow_extra'] * r.random()
            self.run.faults['dgram_delayed'] += 1
        self.in_flight += 1
        self.loop.call_later(lat, self._deliver, src, dst, data)
        if cfg['dup'] and r.random() < cfg['dup']:
            self.run.faults['dgram_dup'] += 1
            self.in_flight += 1
            self.loop.call_later(lat + (hi - lo + 0.001) * r.random(), self._deliver, src, dst, data)

    def _deliver(self, src, dst, data):
        """The datagram reaches the destination host: it is queued on the socket.  asyncio's datagram
        transport hands ONE datagram to the protocol per loop iteration (_read_ready does a single
        recvfrom), so callbacks scheduled by one datagram_received run before the next one is seen."""
        self.in_flight -= 1
        if dst in self.dead or src in self.dead:
            self.run.faults['dgram_to_dead'] += 1
            return
        if self.partition is not None and self.partition(src, dst):
            self.run.faults['dgram_partitioned'] += 1
            return
        ep = self.endpoints.get(dst)
        if ep is None or ep._closing:
            return
        items = None
        if self.on_deliver is not None:
            items = self.on_deliver(src, dst, data, ep)
        if items is None:
            items = [(data, None)]
        for d, tag in items:
            self.enqueue(ep, src, d, tag)

    def enqueue(self, ep, src, data, tag=None):
        inbox = ep.__dict__.setdefault('inbox', collections.deque())
        inbox.append((src, data, tag))
        if not ep.__dict__.get('reader_scheduled'):
            ep.reader_scheduled = True
            self.loop.call_soon(self._read_ready, ep)

    def _read_ready(self, ep):
        ep.reader_scheduled = False
        if ep._closing or not ep.inbox:
            return
        src, data, tag = ep.inbox.popleft()
        if ep.inbox:
            ep.reader_scheduled = True
            self.loop.call_soon(self._read_ready, ep)
        self.delivered += 1
        if self.on_receive is not None and self.on_receive(ep, src, data, tag):
            return
        self.deliver_guarded(ep, data, src)

    def deliver_guarded(self, ep, data, src):
        """Call datagram_received the way asyncio does: an exception is logged and the loop goes on.
        The guard records it (C17 observes escapes)."""
        try:
            ep.protocol.datagram_received(data, src)
            return None
        except Exception as e:  # noqa
            self.escapes.append((round(self.loop.elapsed(), 6), ep.addr, type(e).__name__, src))
            return e


# ---------------------------------------------------------------------------------------------------
# byte streams
# ---------------------------------------------------------------------------------------------------

class _Pipe:
    """One direction of a connection: bytes written by `src` travel to `dst` in scheduler-chosen chunks."""

    def __init__(self, conn, src, dst, rng):
        self.conn = conn
        self.src = src            # SimTransport writing
        self.dst = dst            # SimTransport receiving
        self.rng = rng
        self.buf = bytearray()    # in flight (accepted from the writer, not yet delivered)
        self.arrivals = collections.deque()   # [arrival time, nbytes]: when written bytes reach the reader's host
        self.arrived = 0          # bytes of `buf` that have reached the reader's host
        self.last_arrival = 0.0
        self.eof = False          # writer closed; deliver connection_lost after the buffer drains
        self.scheduled = False
        self.delivered = 0
        self.written = 0
        self.stalled = False


class SimTransport(asyncio.transports._FlowControlMixin, asyncio.Transport):
    _sendfile_compatible = asyncio.constants._SendfileMode.FALLBACK

    def __init__(self, net, loop, protocol, sockname, peername):
        super().__init__(extra={'peername': peername, 'sockname': sockname}, loop=loop)
        self.net = net
        self._protocol = protocol
        self._closing = False
        self._closed = False
        self._paused_reading = False
        self.out = None           # _Pipe for bytes we write
        self.inp = None           # _Pipe for bytes we read
        self.sockname = sockname
        self.peername = peername
        self.lost_exc = 'unset'

    # -- asyncio.Transport API ------------------------------------------------------------------
    def get_protocol(self):
        return self._protocol

    def set_protocol(self, protocol):
        self._protocol = protocol

    def is_closing(self):
        return self._closing

    def is_reading(self):
        return not self._paused_reading and not self._closing

    def pause_reading(self):
        self._paused_reading = True

    def resume_reading(self):
        if self._paused_reading:
            self._paused_reading = False
            if self.inp is not None:
                self.net._schedule(self.inp)

    def get_write_buffer_size(self):
        return len(self.out.buf) if self.out is not None else 0

    def write(self, data):
        if self._closing or self._closed:
            return
        if not data:
            return
        p = self.out
        p.buf += data
        p.written += len(data)
        self.net.on_write(self, bytes(data))
        self.net._arrive(p, len(data))
        self._maybe_pause_protocol()

    def writelines(self, list_of_data):
        self.write(b''.join(list_of_data))

    def can_write_eof(self):
        return False

    def close(self):
        if self._closing:
            return
        self._closing = True
        self.net.on_close(self, 'close')
        p = self.out
        p.eof = True
        self.net._schedule(p)
        # our own connection_lost(None) comes once our write buffer has been flushed (asyncio semantics)
        self.net._maybe_finish_close(self)

    def abort(self):
        if self._closed:
            return
        self._closing = True
        self.net.on_close(self, 'abort')
        self.out.buf.clear()
        self.out.arrivals.clear()
        self.out.arrived = 0
        self.out.eof = True
        self.net._schedule(self.out)
        self.net._lose(self, None)

    def _fatal(self, exc):
        """What asyncio does when data_received raises: force-close, connection_lost(exc)."""
        if self._closed:
            return
        self._closing = True
        self.net.on_close(self, 'fatal:' + type(exc).__name__)
        self.out.buf.clear()
        self.out.arrivals.clear()
        self.out.arrived = 0
        self.out.eof = True
        self.net._schedule(self.out)
        self.net._lose(self, exc)


class SimServer:
    def __init__(self, net, addr, factory):
        self.net = net
        self.addr = addr
        self.factory = factory
        self._serving = True
        self._forever = None

    def close(self):
        if self._serving:
            self._serving = False
            self.net.servers.pop(self.addr, None)
            if self._forever is not None and not self._forever.done():
                self._forever.cancel()

    def is_serving(self):
        return self._serving

    async def wait_closed(self):
        return

    async def serve_forever(self):
        self._forever = self.net.loop.create_future()
        try:
            await self._forever
        finally:
            self.close()

    async def start_serving(self):
        return

    async def __aenter__(self):
        return self

    async def __aexit__(self, *exc):
        self.close()

    @property
    def sockets(self):
        return []


class SimStreamNet:
    """Reliable ordered byte streams.  cfg: latency=(lo,hi); chunk plan per direction drawn by
    `chunker(rng, pipe) -> n bytes` (default: mixture incl. 1-byte fragments and structural cuts);
    connect_latency; refuse(addr)->bool; max_chunk (asyncio reads at most 256 KiB)."""

    def __init__(self, run, loop, cfg=None):
        self.run = run
        self.loop = loop
        self.cfg = dict(latency=(0.001, 0.02), connect_latency=(0.001, 0.05), max_chunk=256 * 1024,
                        chunk_mode='mixed', high_water=64 * 1024)
        self.cfg.update(cfg or {})
        self.servers = {}
        self.conns = []
        self.observers = []          # objects with optional on_write/on_deliver/on_close/on_connect
        self.host_of_loop_ip = None
        self.n_conn = 0
        self.data_received_escapes = []
        loop.create_server = self.create_server
        loop.create_connection = self.create_connection

    # -- observers ------------------------------------------------------------------------------
    def on_write(self, transport, data):
        for o in self.observers:
            f = getattr(o, 'on_write', None)
            if f:
                f(transport, data)

    def on_close(self, transport, how):
        for o in self.observers:
            f = getattr(o, 'on_close', None)
            if f:
                f(transport, how)

    # -- server/client creation ----------------------------------------------------------------------
    async def create_server(self, protocol_factory, host=None, port=None, **kwargs):
        addr = (host, port)
        srv = SimServer(self, addr, protocol_factory)
        self.servers[addr] = srv
        return srv

    def find_server(self, host, port):
        srv = self.servers.get((host, port))
        if srv is None:
            for (h, p), s in self.servers.items():
                if p == port and h in ('0.0.0.0', None, ''):
                    srv = s
        return srv

    async def create_connection(self, protocol_factory, host=None, port=None, **kwargs):
        self.n_conn += 1
        n = self.n_conn
        rng = self.run.rng('stream.conn', n)
        lo, hi = self.cfg['connect_latency']
        refuse = self.cfg.get('refuse')
        blackhole = self.cfg.get('blackhole')
        if blackhole and blackhole(host, port):
            self.run.faults['connect_blackholed'] += 1
            await self.loop.create_future()    # never answers; caller's wait_for times out
        await asyncio.sleep(lo + (hi - lo) * rng.random())
        srv = self.find_server(host, port)
        if srv is None or not srv._serving or (refuse and refuse(host, port)):
            self.run.faults['connect_refused'] += 1
            raise ConnectionRefusedError(111, f"Connect call failed ({host!r}, {port})")
        client_ip = kwargs.get('local_ip') or self.cfg.get('client_ip', '9.8.7.6')
        caddr = (client_ip, 40000 + n)
        saddr = (host, port)
        cproto = protocol_factory()
        sproto = srv.factory()
        ct = SimTransport(self, self.loop, cproto, caddr, saddr)
        st = SimTransport(self, self.loop, sproto, saddr, caddr)
        c2s = _Pipe(n, ct, st, self.run.rng('stream.c2s', n))
        s2c = _Pipe(n, st, ct, self.run.rng('stream.s2c', n))
        ct.out, ct.inp = c2s, s2c
        st.out, st.inp = s2c, c2s
        ct.conn_id = st.conn_id = n
        ct.role, st.role = 'client', 'server'
        self.conns.append((ct, st))
        for o in self.observers:
            f = getattr(o, 'on_connect', None)
            if f:
                f(ct, st)
        sproto.connection_made(st)
        cproto.connection_made(ct)
        return ct, cproto

    def attach_raw_client(self, host, port, protocol):
        """Synchronously connect a harness (scripted) protocol to a registered server."""
        self.n_conn += 1
        n = self.n_conn
        srv = self.find_server(host, port)
        if srv is None:
            raise ConnectionRefusedError()
        caddr = (self.cfg.get('hostile_ip', '6.6.6.6'), 40000 + n)
        saddr = (host, port)
        sproto = srv.factory()
        ct = SimTransport(self, self.loop, protocol, caddr, saddr)
        st = SimTransport(self, self.loop, sproto, saddr, caddr)
        c2s = _Pipe(n, ct, st, self.run.rng('stream.c2s', n))
        s2c = _Pipe(n, st, ct, self.run.rng('stream.s2c', n))
        ct.out, ct.inp = c2s, s2c
        st.out, st.inp = s2c, c2s
        ct.conn_id = st.conn_id = n
        ct.role, st.role = 'client', 'server'
        self.conns.append((ct, st))
        for o in self.observers:
            f = getattr(o, 'on_connect', None)
            if f:
                f(ct, st)
        sproto.connection_made(st)
        protocol.connection_made(ct)
        return ct, st

    # -- delivery ------------------------------------------------------------------------------------
    def _arrive(self, pipe, nbytes):
        """Bytes just written reach the reader's host after one link latency (ordered: never before
        earlier bytes).  Fragmentation is decided at delivery; fragments of data that has already
        arrived follow each other within `inter_chunk`, they do not each pay a link latency."""
        lo, hi = self.cfg['latency']
        lat = lo + (hi - lo) * pipe.rng.random()
        stall = self.cfg.get('stall_prob', 0.0)
        if stall and pipe.rng.random() < stall:
            lat += self.cfg.get('stall_s', 1.0) * pipe.rng.random()
            self.run.faults['stream_stall'] += 1
        at = max(self.loop.time() + lat, pipe.last_arrival)
        pipe.last_arrival = at
        pipe.arrivals.append([at, nbytes])
        self._schedule(pipe)

    def _schedule(self, pipe):
        if pipe.scheduled:
            return
        now = self.loop.time()
        while pipe.arrivals and pipe.arrivals[0][0] <= now + 1e-12:
            pipe.arrived += pipe.arrivals.popleft()[1]
        if pipe.arrived > 0 or (pipe.eof and not pipe.buf):
            lo, hi = self.cfg.get('inter_chunk', (0.0, 0.0004))
            pipe.scheduled = True
            self.loop.call_later(lo + (hi - lo) * pipe.rng.random(), self._pump, pipe)
        elif pipe.arrivals:
            pipe.scheduled = True
            self.loop.call_at(pipe.arrivals[0][0], self._pump, pipe)
        elif pipe.eof:
            pipe.scheduled = True
            self.loop.call_later(self.cfg['latency'][0], self._pump, pipe)

    def _chunk_size(self, pipe):
        n = min(len(pipe.buf), pipe.arrived)
        chunker = self.cfg.get('chunker')
        if chunker is not None:
            k = chunker(pipe.rng, pipe, n)
        else:
            mode = self.cfg['chunk_mode']
            r = pipe.rng
            if mode == 'whole':
                k = n
            elif mode == 'bytes':
                k = 1
            else:
                x = r.random()
                if x < 0.25:
                    k = n
                elif x < 0.45:
                    k = r.randint(1, min(n, 16))
                elif x < 0.6:
                    # cut at / right after a structural byte if one is near the front
                    j = pipe.buf.find(b'}', 0, 4096)
                    k = (j + r.choice([0, 1, 1, 2])) if j >= 0 else r.randint(1, n)
                elif x < 0.8:
                    k = r.randint(1, min(n, 2048))
                else:
                    k = r.randint(1, n)
        return max(1, min(k, n, self.cfg['max_chunk']))

    def _pump(self, pipe):
        pipe.scheduled = False
        dst = pipe.dst
        now = self.loop.time()
        while pipe.arrivals and pipe.arrivals[0][0] <= now + 1e-12:
            pipe.arrived += pipe.arrivals.popleft()[1]
        if dst._closed or dst._closing:
            # a closing transport no longer reads (asyncio removes the reader on close())
            pipe.buf.clear()
            pipe.arrivals.clear()
            pipe.arrived = 0
            self._after_drain(pipe)
            return
        if dst._paused_reading and pipe.buf:
            return   # resume_reading reschedules
        if pipe.buf and pipe.arrived > 0:
            k = self._chunk_size(pipe)
            chunk = bytes(pipe.buf[:k])
            del pipe.buf[:k]
            pipe.arrived -= k
            pipe.delivered += k
            for o in self.observers:
                f = getattr(o, 'on_deliver', None)
                if f:
                    f(dst, chunk)
            try:
                dst._protocol.data_received(chunk)
            except Exception as e:  # noqa  (asyncio: fatal error -> force close)
                self.data_received_escapes.append((round(self.loop.elapsed(), 6), dst.role, type(e).__name__, str(e)[:120]))
                dst._fatal(e)
            pipe.src._maybe_resume_protocol()
        self._after_drain(pipe)
        if pipe.buf or (pipe.eof and not getattr(pipe, 'eof_delivered', False)):
            self._schedule(pipe)

    def _after_drain(self, pipe):
        if pipe.buf:
            return
        src, dst = pipe.src, pipe.dst
        if pipe.eof:
            if not getattr(pipe, 'eof_delivered', False):
                pipe.eof_delivered = True
                # writer's own close completes; the reader sees EOF -> connection_lost(None)
                self._maybe_finish_close(src)
                if not dst._closed:
                    dst._closing = True
                    self._lose(dst, None)
                    # what the reader had in flight towards the closed writer is discarded
                    dst.out.buf.clear()
                    dst.out.arrivals.clear()
                    dst.out.arrived = 0
                    dst.out.eof = True

    def _maybe_finish_close(self, transport):
        if transport._closing and not transport._closed and not transport.out.buf:
            self._lose(transport, None)

    def _lose(self, transport, exc):
        if transport._closed:
            return
        transport._closed = True
        transport._closing = True
        transport.lost_exc = exc
        self.loop.call_soon(self._call_connection_lost, transport, exc)

    def _call_connection_lost(self, transport, exc):
        for o in self.observers:
            f = getattr(o, 'on_lost', None)
            if f:
                f(transport, exc)
        try:
            transport._protocol.connection_lost(exc)
        except Exception as e:  # noqa
            self.data_received_escapes.append((round(self.loop.elapsed(), 6), transport.role,
                                               'connection_lost:' + type(e).__name__, str(e)[:120]))

    def reset(self, transport, exc=None):
        """Fault: the connection is reset (both ends see connection_lost)."""
        ct, st = next((c for c in self.conns if transport in c), (None, None))
        for t in (ct, st):
            if t is not None and not t._closed:
                t.out.buf.clear()
                t.out.arrivals.clear()
                t.out.arrived = 0
                t._closing = True
                self._lose(t, exc if t is transport else ConnectionResetError(104, 'Connection reset by peer'))
