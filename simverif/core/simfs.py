"""SimFS — in-memory file system with a durable and a volatile image per file (DESIGN.md §4.4 level 3).

Installed as the `open` / `os` seen by ONE product module (for C13: `lbry.wallet.wallet`) through a
`Mount`: the module attribute `os` is replaced by a proxy object and a module-level `open` shadows
the builtin.  The mount points at a *current* `SimFS`, which the harness may swap at will (cheap
snapshot / restore: `fs.clone()`).

Model
-----
* A file is an inode with a `volatile` image (what the running process and every other reader
  sees = page cache), a `synced` image (content at the last `fsync(fd)`; empty at creation) and an
  `ordered` image (content at the later of the last fsync and the last rename of that inode), plus
  the log of data operations (positional writes, truncations) issued since each of those images.
* An open file is an *open file description* (inode, position, access mode, O_APPEND) reachable
  through an integer fd.  Two APIs sit on top of it:
  - python file objects (`open(path, mode)`, `open(fd, mode)`, `os.fdopen(fd, mode)`): `write()`
    data are buffered privately; `flush()`/`close()`/a full buffer move them to the volatile image
    in chunks of `chunk` bytes (each chunk is one `pwrite` operation).  Data still in the python
    buffer when the process dies is gone.
  - raw descriptors (`os.open/write/read/lseek/ftruncate/close`): every call acts on the volatile
    image immediately.
* `fsync(fd)`/`fdatasync(fd)` copies volatile -> synced (and ordered).  `rename`/`replace`/`remove`/
  `unlink`/`chmod`/create act on the volatile namespace and are appended to a journal of
  not-yet-durable namespace operations; `fsync` of a directory fd commits that journal.
* `semantics='windows'` (per file system, default 'posix'): `os.rename` raises FileExistsError when the
  destination exists, `os.replace` is the atomic overwrite on both.  (Sharing violations of open files are
  not modelled.)
* `settle()` = "enough time has passed": everything volatile becomes durable.
* Every operation is numbered (`opno`), logged, and is a crash point: `arm(k, 'before'|'after')`
  makes operation k raise `SimFSCrash` (a BaseException) before / after its effect.  From then on
  the "process" is dead: no operation has any effect any more (`close()` during the unwinding of a
  `with` block is ignored silently, anything else raises `SimFSCrash` again and is counted in
  `post_mortem`).
* Whatever the product asks for and SimFS does not model raises `SimFSError`, a BaseException the
  product cannot swallow; it is also recorded in `Mount.unmodelled`.  It is a *harness* limitation
  and must never be reported as a property violation.

Post-crash images (`crash_view`)
--------------------------------
Every file keeps its durable image plus a prefix, in program order, of the un-synced data
operations issued since; truncations cost nothing, written bytes are counted against `keep`
(`None` = everything, `-1` = nothing at all, `k >= 0` = truncations up to and `k` bytes of the
writes, the last write possibly torn).  For an append-only file this is "durable image + chosen
prefix of the appended data"; for truncate+rewrite it is the old content (`-1`), an empty file
(`0`) or a prefix of the new content; for an in-place overwrite it is the durable image with its
first `keep` bytes replaced.  Two namespace models:

* ``'a'`` (ordered): directory operations are durable immediately and a rename is a barrier for
  the data of the renamed file (durable image = `ordered`) — a journalling file system in ordered
  mode with rename-replace flushing.
* ``'b'`` (reordered): a directory operation can be persisted although the data it exposes were
  never fsynced (durable image = `synced`, so a missing fsync shows as an empty / short file), and
  because nothing fsyncs the directory only the first `ns_keep` journalled namespace operations
  are guaranteed to have reached the disk (`ns_keep=None`: all of them).
"""
import io
import os as _os
import types

S_IFREG = 0o100000
S_IFDIR = 0o040000
_ACCMODE = _os.O_RDONLY | _os.O_WRONLY | _os.O_RDWR


class SimFSCrash(BaseException):
    """The simulated process dies inside / around a SimFS operation."""


class SimFSError(BaseException):
    """Harness-fidelity problem: the product used something SimFS does not model.  A BaseException so
    that product code (`except Exception`) cannot swallow it; the run must end as a harness error.
    Every instance is also remembered in `SimFSError.raised` (cleared by the harness per run) in case
    something swallows it anyway."""
    raised = []

    def __init__(self, *args):
        super().__init__(*args)
        SimFSError.raised.append(' '.join(str(a) for a in args))


def _apply_write(buf, pos, data):
    if pos > len(buf):
        buf.extend(b'\0' * (pos - len(buf)))
    buf[pos:pos + len(data)] = data


def _apply_truncate(buf, size):
    if size < len(buf):
        del buf[size:]
    else:
        buf.extend(b'\0' * (size - len(buf)))


def replay(base, log, keep):
    """`base` + the prefix of the un-synced data operations `log` allowed by `keep` (module doc)."""
    if not log or (keep is not None and keep < 0):
        return base
    buf = bytearray(base)
    budget = keep
    for kind, a, b in log:
        if kind == 't':
            _apply_truncate(buf, a)
            continue
        n = len(b) if budget is None else min(budget, len(b))
        _apply_write(buf, a, b[:n])
        if budget is not None:
            budget -= n
            if n < len(b):
                break
    return bytes(buf)


class _Inode:
    __slots__ = ('synced', 'ordered', 'volatile', 'log_s', 'log_o')

    def __init__(self, data=b''):
        self.synced = self.ordered = self.volatile = data
        self.log_s = []          # data operations since `synced`
        self.log_o = []          # data operations since `ordered`

    def copy(self):
        n = _Inode()
        n.synced, n.ordered, n.volatile = self.synced, self.ordered, self.volatile
        n.log_s, n.log_o = list(self.log_s), list(self.log_o)
        return n

    def write_at(self, pos, data):
        if not data:
            return
        vol = self.volatile
        if pos == len(vol):
            self.volatile = vol + data
        else:
            buf = bytearray(vol)
            _apply_write(buf, pos, data)
            self.volatile = bytes(buf)
        op = ('w', pos, bytes(data))
        self.log_s.append(op)
        self.log_o.append(op)

    def truncate(self, size):
        if size == len(self.volatile):
            return
        buf = bytearray(self.volatile)
        _apply_truncate(buf, size)
        self.volatile = bytes(buf)
        op = ('t', size, None)
        self.log_s.append(op)
        self.log_o.append(op)

    def sync(self):
        self.synced = self.ordered = self.volatile
        self.log_s, self.log_o = [], []

    def barrier(self):
        self.ordered = self.volatile
        self.log_o = []

    def image(self, model, keep):
        if keep is None:
            return self.volatile
        return replay(self.ordered, self.log_o, keep) if model == 'a' else replay(self.synced, self.log_s, keep)

    def unsynced(self, model):
        return sum(len(b) for kind, _, b in (self.log_o if model == 'a' else self.log_s) if kind == 'w')

    def dirty(self, model):
        return bool(self.log_o if model == 'a' else self.log_s)


class _Desc:
    """Open file description."""
    __slots__ = ('ino', 'path', 'pos', 'readable', 'writable', 'append', 'closed', 'isdir', 'wrapper')

    def __init__(self, ino, path, readable, writable, append=False, isdir=False):
        self.ino, self.path, self.pos = ino, path, 0
        self.readable, self.writable, self.append = readable, writable, append
        self.closed = False
        self.isdir = isdir
        self.wrapper = None


class SimFile:
    """Python-level file object (text or binary) over an open file description."""

    def __init__(self, fs, desc, fd, mode):
        self._fs, self._d, self._fd = fs, desc, fd
        self.mode = mode
        self.name = desc.path
        self._binary = 'b' in mode
        self._buf = b''
        self.closed = False
        desc.wrapper = self

    # -- context manager / misc -----------------------------------------------------------------
    def __enter__(self):
        return self

    def __exit__(self, *exc):
        self.close()
        return False

    def _check(self):
        if self.closed:
            raise ValueError('I/O operation on closed file.')

    def fileno(self):
        self._check()
        return self._fd

    def writable(self):
        return self._d.writable

    def readable(self):
        return self._d.readable

    def seekable(self):
        return True

    def isatty(self):
        return False

    # -- writing ---------------------------------------------------------------------------------
    def write(self, data):
        fs = self._fs
        self._check()
        if not self._d.writable:
            raise io.UnsupportedOperation('not writable')
        if self._binary:
            raw = bytes(data)
        else:
            if not isinstance(data, str):
                raise TypeError(f'write() argument must be str, not {type(data).__name__}')
            raw = data.encode('utf-8')
        k = fs._begin('write', self._d.path, len(raw))
        self._buf += raw
        fs.offered.setdefault(self._d.path, bytearray()).extend(raw)
        fs._end(k)
        while len(self._buf) >= fs.bufsize:
            self._spill(fs.bufsize)
        return len(data)

    def writelines(self, lines):
        for line in lines:
            self.write(line)

    def _spill(self, limit=None):
        fs, d = self._fs, self._d
        todo = len(self._buf) if limit is None else min(limit, len(self._buf))
        while todo > 0:
            n = min(fs.chunk, todo)
            piece = self._buf[:n]
            k = fs._begin('pwrite', d.path, n)
            node = fs.inodes[d.ino]
            pos = len(node.volatile) if d.append else d.pos
            node.write_at(pos, piece)
            d.pos = pos + n
            self._buf = self._buf[n:]
            fs.written.setdefault(d.path, bytearray()).extend(piece)
            fs._end(k)
            todo -= n

    def flush(self):
        fs = self._fs
        self._check()
        k = fs._begin('flush', self._d.path)
        fs._end(k)
        if self._d.writable:
            self._spill()

    def close(self):
        fs = self._fs
        if self.closed:
            return
        if fs.dead:
            # unwinding of a `with` block after the process died: no effect, no error
            self.closed = True
            return
        k = fs._begin('close', self._d.path)
        if self._d.writable and not self._d.closed:
            self._spill()
        self.closed = True
        self._d.closed = True
        fs.fds.pop(self._fd, None)
        fs._end(k)

    # -- reading / positioning ---------------------------------------------------------------------
    def read(self, size=-1):
        fs, d = self._fs, self._d
        self._check()
        if not d.readable:
            raise io.UnsupportedOperation('not readable')
        if self._buf:
            self._spill()
        k = fs._begin('read', d.path)
        data = fs.inodes[d.ino].volatile
        out = data[d.pos:] if size is None or size < 0 else data[d.pos:d.pos + size]
        d.pos += len(out)
        fs._end(k)
        return out if self._binary else out.decode('utf-8')

    def seek(self, offset, whence=0):
        self._check()
        if self._buf:
            self._spill()
        return self._fs.op_lseek(self._fd, offset, whence)

    def tell(self):
        self._check()
        return self._d.pos + len(self._buf)

    def truncate(self, size=None):
        self._check()
        if self._buf:
            self._spill()
        size = self._d.pos if size is None else size
        self._fs.op_ftruncate(self._fd, size)
        return size


class SimFS:
    def __init__(self, chunk=4096, bufsize=8192, pid=4242, umask=0o022, semantics='posix'):
        if semantics not in ('posix', 'windows'):
            raise ValueError(semantics)
        self.chunk = max(1, int(chunk))
        self.bufsize = max(1, int(bufsize))
        self.pid = pid
        self.umask = umask
        self.semantics = semantics  # 'windows': os.rename refuses an existing destination, os.replace overwrites
        self.rename_refused = 0     # how often that happened since reset_log()
        self.inodes = {}            # ino -> _Inode
        self.names = {}             # volatile namespace: path -> [ino, mode]
        self.durable_names = {}     # durable namespace
        self.journal = []           # namespace ops not yet durable: (kind, a, b)
        self.dirs = {'/'}
        self._next_ino = 1
        self._next_fd = 3
        self.fds = {}               # fd -> _Desc
        self.opno = 0
        self.log = []               # (opno, name, path, nbytes)
        self.written = {}           # path -> bytearray of everything that reached the volatile image
        self.offered = {}           # path -> bytearray of everything passed to write()
        self.die = None
        self.dead = False
        self.post_mortem = 0

    # ---- snapshots ----------------------------------------------------------------------------
    def clone(self):
        if any(not d.closed for d in self.fds.values()):
            raise SimFSError('clone() with open files')
        c = SimFS(self.chunk, self.bufsize, self.pid, self.umask, self.semantics)
        c.inodes = {i: n.copy() for i, n in self.inodes.items()}
        c.names = {p: list(v) for p, v in self.names.items()}
        c.durable_names = {p: list(v) for p, v in self.durable_names.items()}
        c.journal = list(self.journal)
        c.dirs = set(self.dirs)
        c._next_ino = self._next_ino
        return c

    def settle(self):
        """Everything volatile becomes durable (time passed, write-back and journal commit done)."""
        live = {v[0] for v in self.names.values()}
        self.inodes = {i: n for i, n in self.inodes.items() if i in live}
        for n in self.inodes.values():
            n.sync()
        self.durable_names = {p: list(v) for p, v in self.names.items()}
        self.journal = []

    def reset_log(self):
        self.opno = 0
        self.log = []
        self.written = {}
        self.offered = {}
        self.rename_refused = 0

    def arm(self, k, when):
        assert when in ('before', 'after')
        self.die = (int(k), when)

    def open_files(self):
        return [d.path for d in self.fds.values() if not d.closed]

    # ---- harness-side introspection (not operations, allowed when dead) -------------------------
    def mkdir(self, path):
        path = _os.path.normpath(path)
        while path not in self.dirs:
            self.dirs.add(path)
            path = _os.path.dirname(path) or '/'

    def peek(self, path):
        ent = self.names.get(path)
        return None if ent is None else self.inodes[ent[0]].volatile

    def listing(self):
        return {p: self.inodes[v[0]].volatile for p, v in self.names.items()}

    def pending_ns(self):
        return len(self.journal)

    def unsynced_max(self, model):
        return max([n.unsynced(model) for n in self.inodes.values()] or [0])

    def any_dirty(self, model):
        return any(n.dirty(model) for n in self.inodes.values())

    # ---- crash images ---------------------------------------------------------------------------
    def crash_view(self, model='a', ns_keep=None, keep=None):
        """{path: (content, mode)} that a fresh process finds after the machine/process died now."""
        if model == 'a':
            ns = self.names
        elif model == 'b':
            ns = {p: list(v) for p, v in self.durable_names.items()}
            ops = self.journal if ns_keep is None else self.journal[:max(0, ns_keep)]
            for kind, a, b in ops:
                if kind == 'create':
                    ns[a] = [b[0], b[1]]
                elif kind == 'rename':
                    if a in ns:
                        ns[b] = ns.pop(a)
                elif kind == 'remove':
                    ns.pop(a, None)
                elif kind == 'chmod':
                    if a in ns:
                        ns[a][1] = b
        else:
            raise ValueError(model)
        out = {}
        for path, (ino, mode) in ns.items():
            out[path] = (self.inodes[ino].image(model, keep), mode)
        return out

    def reboot(self, view):
        """A fresh SimFS incarnation over a post-crash image."""
        n = SimFS(self.chunk, self.bufsize, self.pid, self.umask, self.semantics)
        n.dirs = set(self.dirs)
        for path in sorted(view):
            content, mode = view[path]
            ino = n._next_ino
            n._next_ino += 1
            n.inodes[ino] = _Inode(bytes(content))
            n.names[path] = [ino, mode]
        n.settle()
        return n

    # ---- operation bookkeeping --------------------------------------------------------------------
    def _begin(self, name, path=None, nbytes=None):
        if self.dead:
            self.post_mortem += 1
            raise SimFSCrash(f'dead process attempted {name}')
        self.opno += 1
        k = self.opno
        self.log.append((k, name, path, nbytes))
        if self.die == (k, 'before'):
            self.dead = True
            raise SimFSCrash(f'before op {k} {name}')
        return k

    def _end(self, k):
        if self.die == (k, 'after'):
            self.dead = True
            raise SimFSCrash(f'after op {k}')

    def _ns(self, kind, a, b=None):
        self.journal.append((kind, a, b))

    def _path(self, path):
        path = _os.fspath(path)
        if not isinstance(path, str):
            raise SimFSError('bytes paths are not modelled')
        return path

    def _desc(self, fd):
        if hasattr(fd, 'fileno'):
            fd = fd.fileno()
        d = self.fds.get(fd)
        if d is None or d.closed:
            raise OSError(9, 'Bad file descriptor')
        return d

    def _new_fd(self, desc):
        fd = self._next_fd
        self._next_fd += 1
        self.fds[fd] = desc
        return fd

    def _lookup_or_create(self, path, create, excl, trunc, perm):
        """Common part of open(): returns the inode number; journals a creation."""
        if _os.path.normpath(path) in self.dirs:
            raise IsADirectoryError(21, 'Is a directory', path)
        ent = self.names.get(path)
        if ent is None:
            if not create:
                raise FileNotFoundError(2, 'No such file or directory', path)
            if (_os.path.dirname(path) or '/') not in self.dirs:
                raise FileNotFoundError(2, 'No such file or directory', path)
            ino = self._next_ino
            self._next_ino += 1
            self.inodes[ino] = _Inode()
            fmode = S_IFREG | (perm & ~self.umask & 0o7777)
            self.names[path] = [ino, fmode]
            self._ns('create', path, (ino, fmode))
            return ino
        if create and excl:
            raise FileExistsError(17, 'File exists', path)
        if trunc:
            self.inodes[ent[0]].truncate(0)
        return ent[0]

    # ---- operations: python-level open -------------------------------------------------------------
    def op_getpid(self):
        k = self._begin('getpid')
        self._end(k)
        return self.pid

    def op_open(self, path, mode='r', buffering=-1, encoding=None, errors=None, newline=None, closefd=True,
                opener=None):
        if opener is not None:
            raise SimFSError('open(..., opener=) is not modelled')
        if encoding not in (None, 'utf-8', 'utf8', 'UTF-8', 'ascii'):
            raise SimFSError(f'open(..., encoding={encoding!r}) is not modelled')
        if not isinstance(mode, str) or any(c not in 'rwabt+x' for c in mode) or \
                sum(c in mode for c in 'rwax') != 1:
            raise ValueError(f'invalid mode: {mode!r}')
        if isinstance(path, int) and not isinstance(path, bool):
            return self.op_fdopen(path, mode)
        path = self._path(path)
        k = self._begin('open', path)
        plus = '+' in mode
        ino = self._lookup_or_create(path, create=any(c in mode for c in 'wax'), excl='x' in mode,
                                     trunc='w' in mode, perm=0o666)
        d = _Desc(ino, path, readable='r' in mode or plus, writable=plus or any(c in mode for c in 'wax'),
                  append='a' in mode)
        if d.append:
            d.pos = len(self.inodes[ino].volatile)
        fd = self._new_fd(d)
        f = SimFile(self, d, fd, mode)
        self._end(k)
        return f

    def op_fdopen(self, fd, mode='r', *args, **kwargs):
        if not isinstance(mode, str) or any(c not in 'rwabt+x' for c in mode):
            raise ValueError(f'invalid mode: {mode!r}')
        k = self._begin('fdopen', getattr(self.fds.get(fd), 'path', None))
        d = self._desc(fd)
        if d.isdir:
            raise IsADirectoryError(21, 'Is a directory', d.path)
        if d.wrapper is not None and not d.wrapper.closed:
            raise SimFSError('two file objects over one descriptor are not modelled')
        wants_write = '+' in mode or any(c in mode for c in 'wax')
        wants_read = 'r' in mode or '+' in mode
        if (wants_write and not d.writable) or (wants_read and not d.readable and not wants_write):
            raise OSError(22, 'Invalid argument')   # access mode of the descriptor does not allow it
        if 'a' in mode:
            d.append = True
        f = SimFile(self, d, fd, mode)
        self._end(k)
        return f

    # ---- operations: raw descriptors ---------------------------------------------------------------
    def op_os_open(self, path, flags, mode=0o777, dir_fd=None):
        if dir_fd is not None:
            raise SimFSError('os.open(..., dir_fd=) is not modelled')
        path = self._path(path)
        k = self._begin('os.open', path)
        acc = flags & _ACCMODE
        if _os.path.normpath(path) in self.dirs:
            if acc != _os.O_RDONLY or flags & (_os.O_CREAT | _os.O_TRUNC):
                raise IsADirectoryError(21, 'Is a directory', path)
            d = _Desc(0, path, True, False, isdir=True)
            fd = self._new_fd(d)
            self._end(k)
            return fd
        if flags & getattr(_os, 'O_DIRECTORY', 0):
            raise NotADirectoryError(20, 'Not a directory', path)
        writable = acc in (_os.O_WRONLY, _os.O_RDWR)
        ino = self._lookup_or_create(path, create=bool(flags & _os.O_CREAT), excl=bool(flags & _os.O_EXCL),
                                     trunc=bool(flags & _os.O_TRUNC) and writable, perm=mode)
        d = _Desc(ino, path, readable=acc in (_os.O_RDONLY, _os.O_RDWR), writable=writable,
                  append=bool(flags & _os.O_APPEND))
        fd = self._new_fd(d)
        self._end(k)
        return fd

    def op_os_close(self, fd):
        if self.dead:
            return
        k = self._begin('os.close', getattr(self.fds.get(fd), 'path', None))
        d = self._desc(fd)
        d.closed = True
        if d.wrapper is not None:
            d.wrapper.closed = True      # like the real thing: buffered data of the wrapper are lost
        self.fds.pop(fd, None)
        self._end(k)

    def op_os_write(self, fd, data):
        d = self.fds.get(fd)
        k = self._begin('os.write', getattr(d, 'path', None), len(data))
        d = self._desc(fd)
        if d.isdir or not d.writable:
            raise OSError(9, 'Bad file descriptor')
        data = bytes(data)
        node = self.inodes[d.ino]
        pos = len(node.volatile) if d.append else d.pos
        node.write_at(pos, data)
        d.pos = pos + len(data)
        self.offered.setdefault(d.path, bytearray()).extend(data)
        self.written.setdefault(d.path, bytearray()).extend(data)
        self._end(k)
        return len(data)

    def op_os_read(self, fd, n):
        k = self._begin('os.read', getattr(self.fds.get(fd), 'path', None))
        d = self._desc(fd)
        if d.isdir:
            raise IsADirectoryError(21, 'Is a directory', d.path)
        if not d.readable:
            raise OSError(9, 'Bad file descriptor')
        out = self.inodes[d.ino].volatile[d.pos:d.pos + n]
        d.pos += len(out)
        self._end(k)
        return out

    def op_lseek(self, fd, pos, whence=0):
        k = self._begin('lseek', getattr(self.fds.get(fd), 'path', None))
        d = self._desc(fd)
        size = 0 if d.isdir else len(self.inodes[d.ino].volatile)
        new = pos if whence == 0 else d.pos + pos if whence == 1 else size + pos if whence == 2 else None
        if new is None or new < 0:
            raise OSError(22, 'Invalid argument')
        d.pos = new
        self._end(k)
        return new

    def op_ftruncate(self, fd, length):
        k = self._begin('ftruncate', getattr(self.fds.get(fd), 'path', None))
        d = self._desc(fd)
        if d.isdir or not d.writable or length < 0:
            raise OSError(22, 'Invalid argument')
        self.inodes[d.ino].truncate(length)
        self._end(k)

    def op_truncate(self, path, length):
        if isinstance(path, int):
            return self.op_ftruncate(path, length)
        path = self._path(path)
        k = self._begin('truncate', path)
        ent = self.names.get(path)
        if ent is None:
            raise FileNotFoundError(2, 'No such file or directory', path)
        self.inodes[ent[0]].truncate(length)
        self._end(k)

    def op_fsync(self, fd):
        if hasattr(fd, 'fileno'):
            fd = fd.fileno()
        k = self._begin('fsync', getattr(self.fds.get(fd), 'path', None))
        d = self._desc(fd)
        if d.isdir:                         # directory fd: the namespace journal reaches the disk
            self.durable_names = {p: list(v) for p, v in self.names.items()}
            self.journal = []
        else:
            self.inodes[d.ino].sync()
        self._end(k)

    op_fdatasync = op_fsync

    def op_fstat(self, fd):
        k = self._begin('fstat', getattr(self.fds.get(fd), 'path', None))
        d = self._desc(fd)
        if d.isdir:
            r = types.SimpleNamespace(st_mode=S_IFDIR | 0o755, st_size=0, st_ino=0)
        else:
            mode = next((v[1] for v in self.names.values() if v[0] == d.ino), S_IFREG | 0o600)
            r = types.SimpleNamespace(st_mode=mode, st_size=len(self.inodes[d.ino].volatile), st_ino=d.ino)
        self._end(k)
        return r

    # ---- operations: names ---------------------------------------------------------------------------
    def op_exists(self, path):
        path = self._path(path)
        k = self._begin('exists', path)
        r = path in self.names or _os.path.normpath(path) in self.dirs
        self._end(k)
        return r

    def op_isfile(self, path):
        path = self._path(path)
        k = self._begin('isfile', path)
        r = path in self.names
        self._end(k)
        return r

    def op_isdir(self, path):
        path = self._path(path)
        k = self._begin('isdir', path)
        r = _os.path.normpath(path) in self.dirs
        self._end(k)
        return r

    def op_getsize(self, path):
        return self.op_stat(path).st_size

    def op_stat(self, path):
        if isinstance(path, int):
            return self.op_fstat(path)
        path = self._path(path)
        k = self._begin('stat', path)
        ent = self.names.get(path)
        if ent is None:
            if _os.path.normpath(path) in self.dirs:
                self._end(k)
                return types.SimpleNamespace(st_mode=S_IFDIR | 0o755, st_size=0, st_ino=0)
            raise FileNotFoundError(2, 'No such file or directory', path)
        r = types.SimpleNamespace(st_mode=ent[1], st_size=len(self.inodes[ent[0]].volatile), st_ino=ent[0])
        self._end(k)
        return r

    def _move(self, name, src, dst, overwrite):
        src, dst = self._path(src), self._path(dst)
        k = self._begin(name, dst)
        ent = self.names.get(src)
        if ent is None:
            raise FileNotFoundError(2, 'No such file or directory', src)
        if _os.path.normpath(dst) in self.dirs:
            raise IsADirectoryError(21, 'Is a directory', dst)
        if (_os.path.dirname(dst) or '/') not in self.dirs:
            raise FileNotFoundError(2, 'No such file or directory', dst)
        if not overwrite and src != dst and dst in self.names:
            # Windows: rename never replaces.  The refused call is still a completed operation, i.e. the
            # process can die right after it (crash point `after`), before the caller's fallback runs.
            self.rename_refused += 1
            self._end(k)
            raise FileExistsError(17, 'Cannot create a file when that file already exists', src, 183, dst)
        if src != dst:
            del self.names[src]
            self.names[dst] = ent
            self._ns('rename', src, dst)
        self.inodes[ent[0]].barrier()
        self._end(k)

    def op_rename(self, src, dst):
        """os.rename: atomically replaces an existing destination on POSIX, refuses it on Windows."""
        return self._move('rename', src, dst, overwrite=self.semantics != 'windows')

    def op_replace(self, src, dst):
        """os.replace: atomic overwrite on every platform."""
        return self._move('replace', src, dst, overwrite=True)

    def op_remove(self, path):
        path = self._path(path)
        k = self._begin('remove', path)
        if path not in self.names:
            if _os.path.normpath(path) in self.dirs:
                raise IsADirectoryError(21, 'Is a directory', path)
            raise FileNotFoundError(2, 'No such file or directory', path)
        del self.names[path]
        self._ns('remove', path)
        self._end(k)

    op_unlink = op_remove

    def op_chmod(self, path, mode):
        if isinstance(path, int):
            d = self._desc(path)
            path = d.path
        path = self._path(path)
        k = self._begin('chmod', path)
        ent = self.names.get(path)
        if ent is None:
            raise FileNotFoundError(2, 'No such file or directory', path)
        ent[1] = S_IFREG | (mode & 0o7777)
        self._ns('chmod', path, ent[1])
        self._end(k)

    def op_makedirs(self, path, mode=0o777, exist_ok=False):
        path = self._path(path)
        k = self._begin('makedirs', path)
        if _os.path.normpath(path) in self.dirs and not exist_ok:
            raise FileExistsError(17, 'File exists', path)
        self.mkdir(path)
        self._end(k)

    def op_listdir(self, path='.'):
        path = _os.path.normpath(self._path(path))
        k = self._begin('listdir', path)
        if path not in self.dirs:
            raise FileNotFoundError(2, 'No such file or directory', path)
        out = sorted({_os.path.basename(p) for p in self.names if (_os.path.dirname(p) or '/') == path} |
                     {_os.path.basename(d) for d in self.dirs if d != path and (_os.path.dirname(d) or '/') == path})
        self._end(k)
        return out


# ---------------------------------------------------------------------------------------------------
# the seam: what the product module sees as `os` and `open`
# ---------------------------------------------------------------------------------------------------

_PURE_OS = {'sep', 'altsep', 'linesep', 'pathsep', 'curdir', 'pardir', 'extsep', 'devnull', 'name', 'fspath',
            'fsencode', 'fsdecode', 'urandom', 'environ', 'getenv', 'error', 'strerror', 'cpu_count',
            'O_RDONLY', 'O_WRONLY', 'O_RDWR', 'O_CREAT', 'O_EXCL', 'O_TRUNC', 'O_APPEND', 'O_DIRECTORY',
            'O_CLOEXEC', 'O_NOFOLLOW', 'O_SYNC', 'O_DSYNC', 'O_BINARY', 'SEEK_SET', 'SEEK_CUR', 'SEEK_END',
            'PathLike', 'getuid', 'geteuid', 'getgid', 'umask'}
_PURE_PATH = {'basename', 'dirname', 'join', 'split', 'splitext', 'normpath', 'isabs', 'expanduser', 'sep',
              'commonprefix', 'commonpath', 'normcase', 'splitdrive', 'expandvars'}


class _PathProxy:
    def __init__(self, mount):
        self._m = mount

    def exists(self, path):
        return self._m.fs.op_exists(path)

    lexists = exists

    def isfile(self, path):
        return self._m.fs.op_isfile(path)

    def isdir(self, path):
        return self._m.fs.op_isdir(path)

    def islink(self, path):
        return False

    def getsize(self, path):
        return self._m.fs.op_getsize(path)

    def abspath(self, path):
        if not _os.path.isabs(path):
            self._m.refuse('os.path.abspath of a relative path')
        return _os.path.normpath(path)

    realpath = abspath

    def __getattr__(self, name):
        if name in _PURE_PATH:
            return getattr(_os.path, name)
        self._m.refuse(f'os.path.{name}')


class _OSProxy:
    def __init__(self, mount):
        self._m = mount
        self.path = _PathProxy(mount)

    def getpid(self):
        return self._m.fs.op_getpid()

    def fsync(self, fd):
        return self._m.fs.op_fsync(fd)

    def fdatasync(self, fd):
        return self._m.fs.op_fdatasync(fd)

    def stat(self, path, **kw):
        return self._m.fs.op_stat(path)

    lstat = stat

    def fstat(self, fd):
        return self._m.fs.op_fstat(fd)

    def rename(self, src, dst, **kw):
        return self._m.fs.op_rename(src, dst)

    def replace(self, src, dst, **kw):
        return self._m.fs.op_replace(src, dst)

    def remove(self, path, **kw):
        return self._m.fs.op_remove(path)

    unlink = remove

    def chmod(self, path, mode, **kw):
        return self._m.fs.op_chmod(path, mode)

    fchmod = chmod

    def makedirs(self, path, mode=0o777, exist_ok=False):
        return self._m.fs.op_makedirs(path, mode, exist_ok)

    def mkdir(self, path, mode=0o777, **kw):
        return self._m.fs.op_makedirs(path, mode, False)

    def listdir(self, path='.'):
        return self._m.fs.op_listdir(path)

    def open(self, path, flags, mode=0o777, *, dir_fd=None):
        return self._m.fs.op_os_open(path, flags, mode, dir_fd)

    def close(self, fd):
        return self._m.fs.op_os_close(fd)

    def fdopen(self, fd, mode='r', *args, **kwargs):
        return self._m.fs.op_fdopen(fd, mode, *args, **kwargs)

    def write(self, fd, data):
        return self._m.fs.op_os_write(fd, data)

    def read(self, fd, n):
        return self._m.fs.op_os_read(fd, n)

    def lseek(self, fd, pos, whence=0):
        return self._m.fs.op_lseek(fd, pos, whence)

    def ftruncate(self, fd, length):
        return self._m.fs.op_ftruncate(fd, length)

    def truncate(self, path, length):
        return self._m.fs.op_truncate(path, length)

    def __getattr__(self, name):
        if name in _PURE_OS and hasattr(_os, name):
            return getattr(_os, name)
        if not hasattr(_os, name):
            # what the real module would do (so `getattr(os, 'O_BINARY', 0)` and hasattr() probes work)
            raise AttributeError(f"module 'os' has no attribute '{name}'")
        value = getattr(_os, name)
        if isinstance(value, (int, str, bytes, float)) and not callable(value):
            return value             # platform constants (O_*, SEEK_*, sep, name, ...) carry no I/O
        self._m.refuse(f'os.{name}')


_MISSING = object()


class Mount:
    """Binds one product module to a swappable SimFS: `mount.fs = other_fs` switches the disk."""

    def __init__(self, fs):
        self.fs = fs
        self.os = _OSProxy(self)
        self.unmodelled = []        # everything SimFS refused: the run is a harness error, not a finding
        self._module = None
        self._saved = None

    def refuse(self, what):
        self.unmodelled.append(what)
        raise SimFSError(f'{what} is not modelled by SimFS')

    def open(self, path, mode='r', *args, **kwargs):
        try:
            return self.fs.op_open(path, mode, *args, **kwargs)
        except SimFSError as e:
            self.unmodelled.append(str(e))
            raise

    def install(self, module):
        assert self._module is None
        self._module = module
        self._saved = (module.__dict__.get('os', _MISSING), module.__dict__.get('open', _MISSING))
        module.os = self.os
        module.open = self.open
        return self

    def uninstall(self):
        module = self._module
        if module is None:
            return
        old_os, old_open = self._saved
        if old_os is _MISSING:
            module.__dict__.pop('os', None)
        else:
            module.os = old_os
        if old_open is _MISSING:
            module.__dict__.pop('open', None)
        else:
            module.open = old_open
        self._module = None

    def __enter__(self):
        return self

    def __exit__(self, *exc):
        self.uninstall()
        return False
