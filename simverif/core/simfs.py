"""SimFS — in-memory file system with a durable and a volatile image per file (DESIGN.md §4.4 level 3).

Installed as the `open` / `os` seen by ONE product module (for C13: `lbry.wallet.wallet`) through a
`Mount`: the module attribute `os` is replaced by a proxy object and a module-level `open` shadows
the builtin.  The mount points at a *current* `SimFS`, which the harness may swap at will (cheap
snapshot / restore: `fs.clone()`).

Model
-----
* A file is an inode with three byte images: `volatile` (what the running process and every other
  reader sees = page cache), `synced` (content at the last `fsync(fd)`; empty at creation) and
  `ordered` (content at the later of the last fsync and the last rename of that inode).
* A python file object buffers `write()` data privately; `flush()`/`close()`/a full buffer move it to
  the volatile image in chunks of `chunk` bytes (each chunk is one `pwrite` operation).  Data still
  in the python buffer when the process dies is gone.
* `fsync(fd)` copies volatile -> synced (and ordered).  `rename`/`remove`/`chmod`/create act on the
  volatile namespace and are appended to a journal of not-yet-durable namespace operations.
* `settle()` = "enough time has passed": everything volatile becomes durable.
* Every operation is numbered (`opno`), logged, and is a crash point: `arm(k, 'before'|'after')`
  makes operation k raise `SimFSCrash` (a BaseException) before / after its effect.  From then on
  the "process" is dead: no operation has any effect any more (`close()` during the unwinding of a
  `with` block is ignored silently, anything else raises `SimFSCrash` again and is counted in
  `post_mortem`).

Post-crash images (`crash_view`)
--------------------------------
Every file keeps its durable image plus a chosen prefix of the un-synced appended data (`keep`
bytes; `None` = all, `-1`/`0` = none).  If the un-synced state is not an append (the file was
truncated / rewritten) the image is either the durable image (`keep=-1`: nothing persisted) or the
first `keep` bytes of the new content (truncation persisted).  Two namespace models:

* ``'a'`` (ordered): directory operations are durable immediately and a rename is a barrier for
  the data of the renamed file (durable image = `ordered`) — a journalling file system in ordered
  mode with rename-replace flushing.
* ``'b'`` (reordered): a directory operation can be persisted although the data it exposes were
  never fsynced (durable image = `synced`, so a missing fsync shows as an empty / short file), and
  because nothing fsyncs the directory only the first `ns_keep` journalled namespace operations
  are guaranteed to have reached the disk (`ns_keep=None`: all of them).
"""
import os as _os
import types

S_IFREG = 0o100000
S_IFDIR = 0o040000


class SimFSCrash(BaseException):
    """The simulated process dies inside / around a SimFS operation."""


class SimFSError(RuntimeError):
    """Harness-fidelity problem: the product used something SimFS does not model."""


class _Inode:
    __slots__ = ('synced', 'ordered', 'volatile')

    def __init__(self, data=b''):
        self.synced = data
        self.ordered = data
        self.volatile = data

    def copy(self):
        n = _Inode()
        n.synced, n.ordered, n.volatile = self.synced, self.ordered, self.volatile
        return n


def tear(base, vol, keep):
    """Post-crash content of a file whose durable image is `base` and volatile image `vol`."""
    if vol == base:
        return base
    if vol.startswith(base):
        extra = vol[len(base):]
        if keep is None:
            return vol
        return base + extra[:max(0, min(keep, len(extra)))]
    if keep is None:
        return vol
    if keep < 0:
        return base
    return vol[:min(keep, len(vol))]


class SimFile:
    """The object returned by the injected `open` (text or binary, read or write/append)."""

    def __init__(self, fs, ino, path, mode, fd):
        self._fs, self._ino, self._path, self._fd = fs, ino, path, fd
        self.mode = mode
        self.name = path
        self._binary = 'b' in mode
        self._writable = any(c in mode for c in 'wax+')
        self._readable = 'r' in mode or '+' in mode
        self._buf = b''
        self._pos = 0
        self.closed = False

    # -- context manager -----------------------------------------------------------------------
    def __enter__(self):
        return self

    def __exit__(self, *exc):
        self.close()
        return False

    def fileno(self):
        if self.closed:
            raise ValueError('I/O operation on closed file')
        return self._fd

    def writable(self):
        return self._writable

    def readable(self):
        return self._readable

    # -- writing ---------------------------------------------------------------------------------
    def write(self, data):
        fs = self._fs
        if self.closed:
            raise ValueError('I/O operation on closed file.')
        if not self._writable:
            raise SimFSError('write on a file opened for reading')
        raw = data if self._binary else data.encode('utf-8')
        k = fs._begin('write', self._path, len(raw))
        self._buf += raw
        fs.offered.setdefault(self._path, bytearray()).extend(raw)
        fs._end(k)
        while len(self._buf) >= fs.bufsize:
            self._spill(fs.bufsize)
        return len(data)

    def _spill(self, limit=None):
        fs = self._fs
        todo = len(self._buf) if limit is None else min(limit, len(self._buf))
        while todo > 0:
            n = min(fs.chunk, todo)
            piece = self._buf[:n]
            k = fs._begin('pwrite', self._path, n)
            node = fs.inodes[self._ino]
            node.volatile = node.volatile + piece
            self._buf = self._buf[n:]
            fs.written.setdefault(self._path, bytearray()).extend(piece)
            fs._end(k)
            todo -= n

    def flush(self):
        fs = self._fs
        if self.closed:
            raise ValueError('I/O operation on closed file.')
        k = fs._begin('flush', self._path)
        fs._end(k)
        if self._writable:
            self._spill()

    def close(self):
        fs = self._fs
        if self.closed:
            return
        if fs.dead:
            # unwinding of a `with` block after the process died: no effect, no error
            self.closed = True
            return
        k = fs._begin('close', self._path)
        if self._writable:
            self._spill()
        self.closed = True
        fs.fds.pop(self._fd, None)
        fs._end(k)

    # -- reading ---------------------------------------------------------------------------------
    def read(self, size=-1):
        fs = self._fs
        if self.closed:
            raise ValueError('I/O operation on closed file.')
        if not self._readable:
            raise SimFSError('read on a file opened for writing')
        k = fs._begin('read', self._path)
        data = fs.inodes[self._ino].volatile
        if size is None or size < 0:
            out = data[self._pos:]
        else:
            out = data[self._pos:self._pos + size]
        self._pos += len(out)
        fs._end(k)
        return out if self._binary else out.decode('utf-8')


class SimFS:
    def __init__(self, chunk=4096, bufsize=8192, pid=4242, umask=0o022):
        self.chunk = max(1, int(chunk))
        self.bufsize = max(1, int(bufsize))
        self.pid = pid
        self.umask = umask
        self.inodes = {}            # ino -> _Inode
        self.names = {}             # volatile namespace: path -> [ino, mode]
        self.durable_names = {}     # durable namespace
        self.journal = []           # namespace ops not yet durable: (kind, a, b)
        self.dirs = {'/'}
        self._next_ino = 1
        self._next_fd = 3
        self.fds = {}               # fd -> SimFile | ('dir', path)
        self.opno = 0
        self.log = []               # (opno, name, path, nbytes)
        self.written = {}           # path -> bytearray of everything that reached the volatile image
        self.offered = {}           # path -> bytearray of everything passed to write()
        self.die = None
        self.dead = False
        self.post_mortem = 0

    # ---- snapshots ----------------------------------------------------------------------------
    def clone(self):
        if any(isinstance(f, SimFile) and not f.closed for f in self.fds.values()):
            raise SimFSError('clone() with open files')
        c = SimFS(self.chunk, self.bufsize, self.pid, self.umask)
        c.inodes = {i: n.copy() for i, n in self.inodes.items()}
        c.names = {p: list(v) for p, v in self.names.items()}
        c.durable_names = {p: list(v) for p, v in self.durable_names.items()}
        c.journal = list(self.journal)
        c.dirs = set(self.dirs)
        c._next_ino = self._next_ino
        return c

    def settle(self):
        """Everything volatile becomes durable (time passed, write-back and journal commit done)."""
        live = {v[0] for v in self.names.values()}
        self.inodes = {i: n for i, n in self.inodes.items() if i in live}
        for n in self.inodes.values():
            n.synced = n.ordered = n.volatile
        self.durable_names = {p: list(v) for p, v in self.names.items()}
        self.journal = []

    def reset_log(self):
        self.opno = 0
        self.log = []
        self.written = {}
        self.offered = {}

    def arm(self, k, when):
        assert when in ('before', 'after')
        self.die = (int(k), when)

    # ---- harness-side introspection (not operations, allowed when dead) -------------------------
    def mkdir(self, path):
        path = _os.path.normpath(path)
        while path not in self.dirs:
            self.dirs.add(path)
            path = _os.path.dirname(path) or '/'

    def peek(self, path):
        ent = self.names.get(path)
        return None if ent is None else self.inodes[ent[0]].volatile

    def listing(self):
        return {p: self.inodes[v[0]].volatile for p, v in self.names.items()}

    def pending_ns(self):
        return len(self.journal)

    def unsynced_max(self, model):
        m = 0
        for n in self.inodes.values():
            base = n.ordered if model == 'a' else n.synced
            if n.volatile != base:
                m = max(m, len(n.volatile) - len(base) if n.volatile.startswith(base) else len(n.volatile))
        return m

    def has_rewrite(self, model):
        for n in self.inodes.values():
            base = n.ordered if model == 'a' else n.synced
            if n.volatile != base and not n.volatile.startswith(base):
                return True
        return False

    # ---- crash images ---------------------------------------------------------------------------
    def crash_view(self, model='a', ns_keep=None, keep=None):
        """{path: (content, mode)} that a fresh process finds after the machine/process died now."""
        if model == 'a':
            ns = self.names
        elif model == 'b':
            ns = {p: list(v) for p, v in self.durable_names.items()}
            ops = self.journal if ns_keep is None else self.journal[:max(0, ns_keep)]
            for kind, a, b in ops:
                if kind == 'create':
                    ns[a] = [b[0], b[1]]
                elif kind == 'rename':
                    if a in ns:
                        ns[b] = ns.pop(a)
                elif kind == 'remove':
                    ns.pop(a, None)
                elif kind == 'chmod':
                    if a in ns:
                        ns[a][1] = b
        else:
            raise ValueError(model)
        out = {}
        for path, (ino, mode) in ns.items():
            node = self.inodes[ino]
            base = node.ordered if model == 'a' else node.synced
            out[path] = (tear(base, node.volatile, keep), mode)
        return out

    def reboot(self, view):
        """A fresh SimFS incarnation over a post-crash image."""
        n = SimFS(self.chunk, self.bufsize, self.pid, self.umask)
        n.dirs = set(self.dirs)
        for path in sorted(view):
            content, mode = view[path]
            ino = n._next_ino
            n._next_ino += 1
            n.inodes[ino] = _Inode(bytes(content))
            n.names[path] = [ino, mode]
        n.settle()
        return n

    # ---- operation bookkeeping --------------------------------------------------------------------
    def _begin(self, name, path=None, nbytes=None):
        if self.dead:
            self.post_mortem += 1
            raise SimFSCrash(f'dead process attempted {name}')
        self.opno += 1
        k = self.opno
        self.log.append((k, name, path, nbytes))
        if self.die == (k, 'before'):
            self.dead = True
            raise SimFSCrash(f'before op {k} {name}')
        return k

    def _end(self, k):
        if self.die == (k, 'after'):
            self.dead = True
            raise SimFSCrash(f'after op {k}')

    def _ns(self, kind, a, b=None):
        self.journal.append((kind, a, b))

    # ---- operations ---------------------------------------------------------------------------------
    def op_getpid(self):
        k = self._begin('getpid')
        self._end(k)
        return self.pid

    def op_open(self, path, mode='r', *args, **kwargs):
        path = _os.fspath(path)
        if not isinstance(path, str):
            raise SimFSError('bytes paths are not modelled')
        if any(c not in 'rwabt+x' for c in mode):
            raise ValueError(f'invalid mode: {mode!r}')
        k = self._begin('open', path)
        ent = self.names.get(path)
        if path in self.dirs:
            raise IsADirectoryError(21, 'Is a directory', path)
        creating = any(c in mode for c in 'wax')
        if ent is None:
            if not creating:
                raise FileNotFoundError(2, 'No such file or directory', path)
            if (_os.path.dirname(path) or '/') not in self.dirs:
                raise FileNotFoundError(2, 'No such file or directory', path)
            ino = self._next_ino
            self._next_ino += 1
            self.inodes[ino] = _Inode()
            fmode = S_IFREG | (0o666 & ~self.umask)
            self.names[path] = [ino, fmode]
            self._ns('create', path, (ino, fmode))
        else:
            if 'x' in mode:
                raise FileExistsError(17, 'File exists', path)
            ino = ent[0]
            if 'w' in mode:
                self.inodes[ino].volatile = b''
        fd = self._next_fd
        self._next_fd += 1
        f = SimFile(self, ino, path, mode, fd)
        if 'a' in mode:
            f._pos = len(self.inodes[ino].volatile)
        self.fds[fd] = f
        self._end(k)
        return f

    def op_fsync(self, fd):
        if hasattr(fd, 'fileno'):
            fd = fd.fileno()
        k = self._begin('fsync', getattr(self.fds.get(fd), '_path', None))
        f = self.fds.get(fd)
        if f is None:
            raise OSError(9, 'Bad file descriptor')
        if isinstance(f, tuple):            # directory fd: the namespace journal reaches the disk
            self.durable_names = {p: list(v) for p, v in self.names.items()}
            self.journal = []
        else:
            node = self.inodes[f._ino]
            node.synced = node.ordered = node.volatile
        self._end(k)

    op_fdatasync = op_fsync

    def op_exists(self, path):
        k = self._begin('exists', path)
        r = path in self.names or _os.path.normpath(path) in self.dirs
        self._end(k)
        return r

    def op_isfile(self, path):
        k = self._begin('isfile', path)
        r = path in self.names
        self._end(k)
        return r

    def op_isdir(self, path):
        k = self._begin('isdir', path)
        r = _os.path.normpath(path) in self.dirs
        self._end(k)
        return r

    def op_getsize(self, path):
        return self.op_stat(path).st_size

    def op_stat(self, path):
        k = self._begin('stat', path)
        ent = self.names.get(path)
        if ent is None:
            if _os.path.normpath(path) in self.dirs:
                self._end(k)
                return types.SimpleNamespace(st_mode=S_IFDIR | 0o755, st_size=0, st_ino=0)
            raise FileNotFoundError(2, 'No such file or directory', path)
        r = types.SimpleNamespace(st_mode=ent[1], st_size=len(self.inodes[ent[0]].volatile), st_ino=ent[0])
        self._end(k)
        return r

    def op_rename(self, src, dst):
        k = self._begin('rename', dst)
        ent = self.names.get(src)
        if ent is None:
            raise FileNotFoundError(2, 'No such file or directory', src)
        if _os.path.normpath(dst) in self.dirs:
            raise IsADirectoryError(21, 'Is a directory', dst)
        if (_os.path.dirname(dst) or '/') not in self.dirs:
            raise FileNotFoundError(2, 'No such file or directory', dst)
        del self.names[src]
        self.names[dst] = ent
        node = self.inodes[ent[0]]
        node.ordered = node.volatile
        self._ns('rename', src, dst)
        self._end(k)

    op_replace = op_rename

    def op_remove(self, path):
        k = self._begin('remove', path)
        if path not in self.names:
            raise FileNotFoundError(2, 'No such file or directory', path)
        del self.names[path]
        self._ns('remove', path)
        self._end(k)

    op_unlink = op_remove

    def op_chmod(self, path, mode):
        k = self._begin('chmod', path)
        ent = self.names.get(path)
        if ent is None:
            raise FileNotFoundError(2, 'No such file or directory', path)
        ent[1] = S_IFREG | (mode & 0o7777)
        self._ns('chmod', path, ent[1])
        self._end(k)

    def op_makedirs(self, path, mode=0o777, exist_ok=False):
        k = self._begin('makedirs', path)
        if _os.path.normpath(path) in self.dirs and not exist_ok:
            raise FileExistsError(17, 'File exists', path)
        self.mkdir(path)
        self._end(k)

    def op_listdir(self, path='.'):
        k = self._begin('listdir', path)
        path = _os.path.normpath(path)
        out = sorted({_os.path.basename(p) for p in self.names if (_os.path.dirname(p) or '/') == path} |
                     {_os.path.basename(d) for d in self.dirs if d != path and (_os.path.dirname(d) or '/') == path})
        self._end(k)
        return out

    def op_os_open(self, path, flags, mode=0o777, **kwargs):
        k = self._begin('os.open', path)
        if _os.path.normpath(path) not in self.dirs:
            raise SimFSError('os.open is modelled for directories only (directory fsync)')
        fd = self._next_fd
        self._next_fd += 1
        self.fds[fd] = ('dir', path)
        self._end(k)
        return fd

    def op_os_close(self, fd):
        if self.dead:
            return
        k = self._begin('os.close')
        f = self.fds.pop(fd, None)
        if isinstance(f, SimFile):
            f.close()
        self._end(k)


# ---------------------------------------------------------------------------------------------------
# the seam: what the product module sees as `os` and `open`
# ---------------------------------------------------------------------------------------------------

_PURE_OS = {'sep', 'altsep', 'linesep', 'pathsep', 'curdir', 'pardir', 'extsep', 'devnull', 'name', 'fspath',
            'fsencode', 'fsdecode', 'urandom', 'environ', 'getenv', 'error', 'strerror', 'cpu_count',
            'O_RDONLY', 'O_WRONLY', 'O_RDWR', 'O_CREAT', 'O_EXCL', 'O_TRUNC', 'O_APPEND', 'O_DIRECTORY',
            'PathLike', 'getcwd', 'getuid'}
_PURE_PATH = {'basename', 'dirname', 'join', 'split', 'splitext', 'normpath', 'isabs', 'expanduser', 'sep',
              'commonprefix', 'commonpath', 'relpath', 'abspath', 'normcase', 'splitdrive', 'expandvars'}


class _PathProxy:
    def __init__(self, mount):
        self._m = mount

    def exists(self, path):
        return self._m.fs.op_exists(path)

    lexists = exists

    def isfile(self, path):
        return self._m.fs.op_isfile(path)

    def isdir(self, path):
        return self._m.fs.op_isdir(path)

    def getsize(self, path):
        return self._m.fs.op_getsize(path)

    def __getattr__(self, name):
        if name in _PURE_PATH:
            return getattr(_os.path, name)
        raise SimFSError(f'os.path.{name} is not modelled by SimFS')


class _OSProxy:
    def __init__(self, mount):
        self._m = mount
        self.path = _PathProxy(mount)

    def getpid(self):
        return self._m.fs.op_getpid()

    def fsync(self, fd):
        return self._m.fs.op_fsync(fd)

    def fdatasync(self, fd):
        return self._m.fs.op_fdatasync(fd)

    def stat(self, path, **kw):
        return self._m.fs.op_stat(path)

    lstat = stat

    def rename(self, src, dst, **kw):
        return self._m.fs.op_rename(src, dst)

    def replace(self, src, dst, **kw):
        return self._m.fs.op_replace(src, dst)

    def remove(self, path, **kw):
        return self._m.fs.op_remove(path)

    unlink = remove

    def chmod(self, path, mode, **kw):
        return self._m.fs.op_chmod(path, mode)

    def makedirs(self, path, mode=0o777, exist_ok=False):
        return self._m.fs.op_makedirs(path, mode, exist_ok)

    def mkdir(self, path, mode=0o777, **kw):
        return self._m.fs.op_makedirs(path, mode, False)

    def listdir(self, path='.'):
        return self._m.fs.op_listdir(path)

    def open(self, path, flags, mode=0o777, **kw):
        return self._m.fs.op_os_open(path, flags, mode)

    def close(self, fd):
        return self._m.fs.op_os_close(fd)

    def __getattr__(self, name):
        if name in _PURE_OS:
            return getattr(_os, name)
        raise SimFSError(f'os.{name} is not modelled by SimFS')


_MISSING = object()


class Mount:
    """Binds one product module to a swappable SimFS: `mount.fs = other_fs` switches the disk."""

    def __init__(self, fs):
        self.fs = fs
        self.os = _OSProxy(self)
        self._module = None
        self._saved = None

    def open(self, path, mode='r', *args, **kwargs):
        return self.fs.op_open(path, mode, *args, **kwargs)

    def install(self, module):
        assert self._module is None
        self._module = module
        self._saved = (module.__dict__.get('os', _MISSING), module.__dict__.get('open', _MISSING))
        module.os = self.os
        module.open = self.open
        return self

    def uninstall(self):
        module = self._module
        if module is None:
            return
        old_os, old_open = self._saved
        if old_os is _MISSING:
            module.__dict__.pop('os', None)
        else:
            module.os = old_os
        if old_open is _MISSING:
            module.__dict__.pop('open', None)
        else:
            module.open = old_open
        self._module = None

    def __enter__(self):
        return self

    def __exit__(self, *exc):
        self.uninstall()
        return False
