"""Independent strict bencode reader/writer (LBRY dialect: dict keys may be integers) and the DHT
message schema used as reference by C17 / the dht_net wire monitor.  Shares no code with lbry."""

HASH_LEN = 48
RPC_ID_LEN = 20
METHODS = (b'ping', b'store', b'findNode', b'findValue')
MAX_DEPTH = 64


class RefError(Exception):
    pass


def decode(data: bytes):
    if not isinstance(data, (bytes, bytearray)) or not data:
        raise RefError('empty')
    obj, pos = _dec(bytes(data), 0, 0)
    if pos != len(data):
        raise RefError('trailing bytes')
    return obj


def _int_token(tok: bytes) -> int:
    if not tok:
        raise RefError('empty integer')
    body = tok[1:] if tok[:1] == b'-' else tok
    if not body or not body.isdigit():
        raise RefError('bad integer')
    if len(body) > 1 and body[:1] == b'0':
        raise RefError('leading zero')
    if tok == b'-0':
        raise RefError('negative zero')
    return int(tok)


def _dec(d: bytes, i: int, depth: int):
    if depth > MAX_DEPTH:
        raise RefError('too deep')
    if i >= len(d):
        raise RefError('truncated')
    c = d[i:i + 1]
    if c == b'i':
        j = d.find(b'e', i)
        if j < 0:
            raise RefError('unterminated integer')
        return _int_token(d[i + 1:j]), j + 1
    if c == b'l':
        i += 1
        out = []
        while True:
            if i >= len(d):
                raise RefError('unterminated list')
            if d[i:i + 1] == b'e':
                return out, i + 1
            v, i = _dec(d, i, depth + 1)
            out.append(v)
    if c == b'd':
        i += 1
        out = {}
        last = None
        while True:
            if i >= len(d):
                raise RefError('unterminated dict')
            if d[i:i + 1] == b'e':
                return out, i + 1
            k, i = _dec(d, i, depth + 1)
            if not isinstance(k, (int, bytes)) or isinstance(k, bool):
                raise RefError('bad key type')
            if last is not None:
                if type(last) is not type(k):
                    raise RefError('mixed key types')
                if not last < k:
                    raise RefError('keys not strictly ascending')
            last = k
            v, i = _dec(d, i, depth + 1)
            out[k] = v
    if c.isdigit():
        j = d.find(b':', i)
        if j < 0:
            raise RefError('no colon')
        tok = d[i:j]
        if not tok.isdigit() or (len(tok) > 1 and tok[:1] == b'0'):
            raise RefError('bad length')
        n = int(tok)
        if j + 1 + n > len(d):
            raise RefError('string runs past end')
        return d[j + 1:j + 1 + n], j + 1 + n
    raise RefError('bad type byte')


def encode(obj) -> bytes:
    if isinstance(obj, bool):
        raise RefError('bool')
    if isinstance(obj, int):
        return b'i' + str(obj).encode() + b'e'
    if isinstance(obj, (bytes, bytearray)):
        return str(len(obj)).encode() + b':' + bytes(obj)
    if isinstance(obj, str):
        b = obj.encode('utf-8')
        return str(len(b)).encode() + b':' + b
    if isinstance(obj, (list, tuple)):
        return b'l' + b''.join(encode(x) for x in obj) + b'e'
    if isinstance(obj, dict):
        return b'd' + b''.join(encode(k) + encode(obj[k]) for k in sorted(obj)) + b'e'
    raise RefError(f'cannot encode {type(obj)}')


# ---- schema ------------------------------------------------------------------------------------------

def _norm_keys(root):
    """Datagram roots are keyed 0..4 either as integers or as their decimal byte strings."""
    out = {}
    for k, v in root.items():
        if isinstance(k, int):
            out[k] = v
        elif isinstance(k, bytes) and k.isdigit() and (k == b'0' or k[:1] != b'0'):
            out[int(k)] = v
        else:
            raise RefError('bad root key')
    return out


def _is_triple(t):
    return (isinstance(t, list) and len(t) == 3 and isinstance(t[0], bytes) and len(t[0]) == HASH_LEN
            and isinstance(t[1], bytes) and isinstance(t[2], int))


def parse_message(data: bytes):
    """-> dict(kind='request'|'response'|'error', rpc_id, node_id, ...) or raises RefError."""
    root = decode(data)
    if not isinstance(root, dict):
        raise RefError('root not dict')
    m = _norm_keys(root)
    t = m.get(0)
    if t not in (0, 1, 2) or isinstance(t, bool):
        raise RefError('bad packet type')
    rpc_id, node_id = m.get(1), m.get(2)
    if not isinstance(rpc_id, bytes) or len(rpc_id) != RPC_ID_LEN:
        raise RefError('bad rpc id')
    if not isinstance(node_id, bytes) or len(node_id) != HASH_LEN:
        raise RefError('bad node id')
    if t == 0:
        if set(m) - {0, 1, 2, 3, 4}:
            raise RefError('extra keys')
        method, args = m.get(3), m.get(4)
        if method not in METHODS:
            raise RefError('bad method')
        if not isinstance(args, list) or not args:
            raise RefError('bad args')
        opts = args[-1]
        if not isinstance(opts, dict) or opts.get(b'protocolVersion') != 1:
            raise RefError('no protocolVersion')
        pos = args[:-1]
        if method == b'ping':
            if pos or set(opts) != {b'protocolVersion'}:
                raise RefError('ping args')
        elif method == b'findNode':
            if len(pos) != 1 or not isinstance(pos[0], bytes) or len(pos[0]) != HASH_LEN or \
                    set(opts) != {b'protocolVersion'}:
                raise RefError('findNode args')
        elif method == b'findValue':
            if len(pos) != 1 or not isinstance(pos[0], bytes) or len(pos[0]) != HASH_LEN:
                raise RefError('findValue args')
            if set(opts) - {b'protocolVersion', b'p'} or not isinstance(opts.get(b'p', 0), int) \
                    or opts.get(b'p', 0) < 0:
                raise RefError('findValue page')
        else:
            if len(pos) != 5 or set(opts) != {b'protocolVersion'}:
                raise RefError('store args')
            bh, token, port, pub, age = pos
            if not (isinstance(bh, bytes) and len(bh) == HASH_LEN and isinstance(token, bytes)
                    and len(token) == HASH_LEN and isinstance(port, int) and 0 < port < 65536
                    and isinstance(pub, bytes) and len(pub) == HASH_LEN and isinstance(age, int)):
                raise RefError('store arg types')
        return {'kind': 'request', 'rpc_id': rpc_id, 'node_id': node_id, 'method': method, 'args': args}
    if t == 1:
        if set(m) - {0, 1, 2, 3} or 3 not in m:
            raise RefError('response keys')
        r = m[3]
        if isinstance(r, bytes):
            pass
        elif isinstance(r, list):
            if not all(_is_triple(x) for x in r):
                raise RefError('bad contact triple')
        elif isinstance(r, dict):
            if not all(isinstance(k, bytes) for k in r):
                raise RefError('response dict keys')
            if not isinstance(r.get(b'token'), bytes):
                raise RefError('no token')
            if b'contacts' in r and not (isinstance(r[b'contacts'], list) and all(_is_triple(x) for x in r[b'contacts'])):
                raise RefError('bad contacts')
            if b'p' in r and not isinstance(r[b'p'], int):
                raise RefError('bad page count')
            for k, v in r.items():
                if len(k) == HASH_LEN:
                    if not (isinstance(v, list) and all(isinstance(x, bytes) and len(x) == 6 + HASH_LEN for x in v)):
                        raise RefError('bad compact addresses')
        else:
            raise RefError('bad response type')
        return {'kind': 'response', 'rpc_id': rpc_id, 'node_id': node_id, 'response': r}
    if set(m) - {0, 1, 2, 3, 4} or 3 not in m or 4 not in m:
        raise RefError('error keys')
    et, text = m[3], m[4]
    if not isinstance(et, bytes) or not isinstance(text, bytes):
        raise RefError('error field types')
    try:
        et.decode('utf-8')
        text.decode('utf-8')
    except UnicodeDecodeError:
        raise RefError('error text not utf-8')
    return {'kind': 'error', 'rpc_id': rpc_id, 'node_id': node_id, 'exception_type': et, 'response': text}


def compact_decode(b: bytes):
    if len(b) != 6 + HASH_LEN:
        raise RefError('compact length')
    return b[6:], '.'.join(str(x) for x in b[:4]), int.from_bytes(b[4:6], 'big')


def compact_encode(node_id: bytes, ip: str, port: int) -> bytes:
    parts = [int(x) for x in ip.split('.')]
    return bytes(parts) + port.to_bytes(2, 'big') + node_id
