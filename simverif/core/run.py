"""Per-run context: seed streams, trace digest, violations, fault/probe counters (DESIGN.md §5)."""
import collections
import gc
import hashlib

from . import env
from .loop import SimLoop, SimBudget, SimCrash, SimIdle
from .rng import Streams


class Violation(dict):
    """{kind, detail, site{…}, step, vtime}; `kind` is the stable class used by minimisation and
    by known-finding matching; `site` carries the specific input / call site."""


class Run:
    def __init__(self, scenario, keep_trace=False):
        self.scenario = scenario
        self.seed = scenario['run_seed']
        self.streams = Streams(self.seed)
        self.violations = []
        self.faults = collections.Counter()
        self.probes = collections.Counter()
        self.notes = []
        self._h = hashlib.sha256()
        self._keep = [] if keep_trace else None
        self.events = 0
        self.loop = None
        self.loops = []
        self.sim_time = 0.0
        self.steps = 0
        self.exec_jobs = 0
        self.outcome = 'ok'
        self.nontrivial = False
        self.ev('seed', self.seed)

    # ---- trace --------------------------------------------------------------------------------
    def ev(self, *items):
        self.events += 1
        s = repr(items)
        self._h.update(s.encode('utf-8', 'backslashreplace'))
        self._h.update(b'\n')
        if self._keep is not None:
            self._keep.append(s)

    def digest(self):
        return self._h.hexdigest()[:16]

    @property
    def trace(self):
        return self._keep

    # ---- streams ------------------------------------------------------------------------------
    def rng(self, site, entity=''):
        return self.streams(site, entity)

    # ---- loop incarnations ------------------------------------------------------------------------
    def new_loop(self, **kwargs):
        """Start a process incarnation: a fresh SimLoop bound to the ambient seams."""
        start = kwargs.pop('start_time', None)
        if start is None:
            start = self.loop.time() if self.loop is not None else 1_000_000.0
        n = len(self.loops)
        if self.loop is not None:
            self._account(self.loop)
        loop = SimLoop(start_time=start, exec_rng=self.streams('executor', n), **kwargs)
        self.loops.append(loop)
        self.loop = loop
        import asyncio
        asyncio.set_event_loop(loop)
        if n == 0:
            env.enter_run(loop, self.streams)
        else:
            env.rebind_clock(loop)
            env.reset_caches()
        return loop

    def _account(self, loop):
        if getattr(loop, '_accounted', False):
            return
        loop._accounted = True
        self.sim_time += loop.elapsed()
        self.steps += loop.steps
        self.exec_jobs += loop.exec_jobs

    def drive(self, coro):
        """Run `coro` on the current loop; translate budget/idle into run outcomes."""
        try:
            return self.loop.run(coro)
        except SimBudget as e:
            self.outcome = 'budget'
            self.notes.append(f'budget:{e}')
            coro.close()
            raise
        except SimIdle:
            self.outcome = 'budget'
            self.notes.append('idle-deadlock')
            raise

    def kill_loop(self):
        """The incarnation is gone: drop everything it scheduled, collect deterministically."""
        loop = self.loop
        if loop is None:
            return
        self._account(loop)
        loop.abandon()
        gc.collect()

    def finish(self):
        if self.loop is not None:
            self._account(self.loop)
            try:
                self.loop.abandon()
            except Exception:
                pass
        import asyncio
        asyncio.set_event_loop(None)
        env.exit_run()
        self.loop = None
        gc.collect()
        if self.violations:
            self.outcome = 'violation'

    # ---- reporting ----------------------------------------------------------------------------
    def violation(self, kind, detail, **site):
        loop = self.loop
        v = Violation(kind=kind, detail=str(detail)[:2000], site=site,
                      step=self.steps + (loop.steps if loop else 0),
                      vtime=round(loop.elapsed(), 6) if loop else 0.0)
        self.violations.append(v)
        self.ev('VIOLATION', kind, sorted(site.items()))
        return v

    def result(self):
        return {
            'outcome': self.outcome,
            'violations': [dict(v) for v in self.violations],
            'digest': self.digest(),
            'faults': dict(self.faults),
            'probes': dict(self.probes),
            'sim_time': round(self.sim_time, 3),
            'steps': self.steps,
            'exec_jobs': self.exec_jobs,
            'events': self.events,
            'nontrivial': bool(self.nontrivial),
            'notes': self.notes[:20],
        }


__all__ = ['Run', 'Violation', 'SimBudget', 'SimCrash', 'SimIdle', 'SimLoop']
