"""Independent LBRY header-chain miner and validator for C07 (DESIGN.md §7 C07).

Nothing in this module imports the product.  Everything is exact integer arithmetic:

* header      112 bytes: version<I | prev_hash(32) | merkle_root(32) | claim_trie_root(32) | time<I | bits<I | nonce<I
* block hash  sha256d(header) (raw byte order; the displayed hex is the byte-reversed digest)
* PoW hash    sha256d( ripemd160(L) + ripemd160(R) ) with L|R = the two halves of sha512(sha256d(header)),
              read as a little-endian 256-bit integer
* compact     Bitcoin nBits (arith_uint256::SetCompact / GetCompact, sign bit never set for targets)
* retarget    lbrycrd `CalculateLbryNextWorkRequired`, per block:
                 actual    = time(parent) - time(grandparent)          (0 for height 1)
                 modulated = 150 + trunc((actual - 150) / 8)           (C++ division: toward zero)
                 clamped to [150 - 150//8, 150 + 150//2] = [132, 225]
                 new       = decode(parent.bits) * clamped // 150, capped at max_target
                 bits      = compact(new)
              a header meets its target iff pow_hash <= decode(bits)   (lbrycrd CheckProofOfWork)
"""
import hashlib
import os
import random
import struct

HEADER_SIZE = 112
TIMESPAN = 150
MAX_TARGET = 2 ** 248 - 1            # ~256 hashes per header
MIN_SPAN = TIMESPAN - TIMESPAN // 8  # 132
MAX_SPAN = TIMESPAN + TIMESPAN // 2  # 225

_sha256 = hashlib.sha256
_sha512 = hashlib.sha512
_RIPEMD = hashlib.new('ripemd160')   # available in this interpreter's OpenSSL (checked at import)

_pack_tail = struct.Struct('<III').pack
_unpack_tail = struct.Struct('<III').unpack_from
_pack_u32 = struct.Struct('<I').pack


# ---------------------------------------------------------------------------------------------------
# hashes
# ---------------------------------------------------------------------------------------------------

def sha256d(b):
    return _sha256(_sha256(b).digest()).digest()


def _ripemd160(b):
    h = _RIPEMD.copy()
    h.update(b)
    return h.digest()


def block_hash(header):
    """raw sha256d of the 112 bytes — what the next header's prev_hash field must contain."""
    return sha256d(header)


def display_hash(raw):
    return raw[::-1].hex()


def pow_int_from_block_hash(bh):
    s = _sha512(bh).digest()
    return int.from_bytes(sha256d(_ripemd160(s[:32]) + _ripemd160(s[32:])), 'little')


def pow_int(header):
    return pow_int_from_block_hash(sha256d(header))


def chunk_digest(data):
    """The hash under which a 1000-header chunk is check-pointed: displayed sha256d of the bytes."""
    return display_hash(sha256d(data))


# ---------------------------------------------------------------------------------------------------
# compact targets and the retarget rule
# ---------------------------------------------------------------------------------------------------

def decode_compact(bits):
    size = bits >> 24
    word = bits & 0x007fffff
    if size <= 3:
        return word >> (8 * (3 - size))
    return word << (8 * (size - 3))


def encode_compact(target):
    size = (target.bit_length() + 7) // 8
    if size <= 3:
        c = target << (8 * (3 - size))
    else:
        c = target >> (8 * (size - 3))
    if c & 0x00800000:
        c >>= 8
        size += 1
    return c | (size << 24)


def _trunc_div(a, b):
    q = abs(a) // b
    return q if a >= 0 else -q


def clamped_timespan(actual):
    mod = TIMESPAN + _trunc_div(actual - TIMESPAN, 8)
    return max(MIN_SPAN, min(mod, MAX_SPAN))


def next_target(parent_bits, parent_time, grand_time, max_target=MAX_TARGET):
    """Full-precision target the header following `parent` must encode (grand_time None: height 1)."""
    actual = 0 if grand_time is None else parent_time - grand_time
    new = decode_compact(parent_bits) * clamped_timespan(actual) // TIMESPAN
    return min(new, max_target)


def next_bits(parent_bits, parent_time, grand_time, max_target=MAX_TARGET):
    return encode_compact(next_target(parent_bits, parent_time, grand_time, max_target))


# deliberately wrong retarget variants (used to mine "wrong bits" headers a sloppy validator would accept)
def wrong_bits_variant(kind, parent_bits, parent_time, grand_time, max_target=MAX_TARGET):
    actual = 0 if grand_time is None else parent_time - grand_time
    t = decode_compact(parent_bits)
    if kind == 'floor_div':
        mod = TIMESPAN + (actual - TIMESPAN) // 8
        return encode_compact(min(t * max(MIN_SPAN, min(mod, MAX_SPAN)) // TIMESPAN, max_target))
    if kind == 'no_clamp':
        mod = max(1, TIMESPAN + _trunc_div(actual - TIMESPAN, 8))
        return encode_compact(min(t * mod // TIMESPAN, max_target))
    if kind == 'no_cap':
        return encode_compact(t * clamped_timespan(actual) // TIMESPAN)
    if kind == 'parent':
        return parent_bits
    if kind == 'max':
        return encode_compact(max_target)
    right = next_bits(parent_bits, parent_time, grand_time, max_target)
    if kind == 'mant_plus':
        return encode_compact(decode_compact(right) + (1 << max(0, 8 * ((right >> 24) - 3))))
    if kind == 'mant_minus':
        return encode_compact(decode_compact(right) - 1)
    if kind == 'sign_bit':
        return right | 0x00800000
    return right


# ---------------------------------------------------------------------------------------------------
# headers
# ---------------------------------------------------------------------------------------------------

def serialize(version, prev, merkle, claim, time_, bits, nonce):
    return b''.join((_pack_u32(version & 0xffffffff), prev, merkle, claim,
                     _pack_tail(time_ & 0xffffffff, bits & 0xffffffff, nonce & 0xffffffff)))


def parse(header):
    t, b, n = _unpack_tail(header, 100)
    return {'version': struct.unpack_from('<I', header, 0)[0], 'prev': header[4:36], 'merkle': header[36:68],
            'claim': header[68:100], 'time': t, 'bits': b, 'nonce': n}


def time_bits(header):
    t, b, _ = _unpack_tail(header, 100)
    return t, b


def with_nonce(header, nonce):
    return header[:108] + _pack_u32(nonce & 0xffffffff)


def mine(prefix108, nonce0, accept, limit=1 << 26):
    """Deterministic nonce search: first nonce >= nonce0 (mod 2^32) whose PoW integer satisfies
    `accept(pow)`.  Returns (header, tries)."""
    sha = _sha256
    mid = sha(prefix108[:64])
    rest = prefix108[64:]
    n = nonce0 & 0xffffffff
    for tries in range(1, limit + 1):
        m = mid.copy()
        m.update(rest + _pack_u32(n))
        if accept(pow_int_from_block_hash(sha(m.digest()).digest())):
            return prefix108 + _pack_u32(n), tries
        n = (n + 1) & 0xffffffff
    raise RuntimeError('mining limit exceeded')


def mine_valid(version, prev, merkle, claim, time_, bits, nonce0):
    target = decode_compact(bits)
    return mine(serialize(version, prev, merkle, claim, time_, bits, 0)[:108], nonce0, lambda p: p <= target)


# ---------------------------------------------------------------------------------------------------
# validator
# ---------------------------------------------------------------------------------------------------

class Chain:
    """Validation parameters of one network (genesis hash is the raw sha256d of the genesis header)."""

    def __init__(self, genesis_raw_hash, max_target=MAX_TARGET):
        self.genesis = genesis_raw_hash
        self.max_target = max_target

    def expected_bits(self, parent, grand):
        pt, pb = time_bits(parent)
        gt = time_bits(grand)[0] if grand is not None else None
        return next_bits(pb, pt, gt, self.max_target)

    def check(self, height, header, parent, grand):
        """None if `header` is valid at `height` on top of `parent` (and `grand`), else the first
        broken rule in the order a validator meets them: size / genesis / link / bits / pow."""
        if len(header) != HEADER_SIZE:
            return 'size'
        if height == 0:
            return None if sha256d(header) == self.genesis else 'genesis'
        if parent is None or len(parent) != HEADER_SIZE:
            return 'link'
        if header[4:36] != sha256d(parent):
            return 'link'
        if height >= 2 and (grand is None or len(grand) != HEADER_SIZE):
            return 'link'
        bits = time_bits(header)[1]
        if bits != self.expected_bits(parent, grand if height >= 2 else None):
            return 'bits'
        if pow_int(header) > decode_compact(bits):
            return 'pow'
        return None

    def first_invalid(self, buf, lo, hi):
        """Walk headers lo..hi-1 of `buf` (headers below `lo` are taken as valid context).
        Returns (height, rule) of the first invalid one or (hi, None)."""
        hs = HEADER_SIZE
        hi = min(hi, len(buf) // hs)
        lo = max(0, lo)
        parent = bytes(buf[(lo - 1) * hs: lo * hs]) if lo >= 1 else None
        grand = bytes(buf[(lo - 2) * hs: (lo - 1) * hs]) if lo >= 2 else None
        for h in range(lo, hi):
            cur = bytes(buf[h * hs:(h + 1) * hs])
            rule = self.check(h, cur, parent, grand)
            if rule is not None:
                return h, rule
            grand, parent = parent, cur
        return hi, None


def common_prefix_headers(a, b):
    """Number of leading whole headers on which the two byte strings agree."""
    n = min(len(a), len(b)) // HEADER_SIZE
    if a[:n * HEADER_SIZE] == b[:n * HEADER_SIZE]:
        return n
    lo, hi = 0, n            # invariant: first lo headers equal, first hi+... unknown
    while lo < hi:
        mid = (lo + hi + 1) // 2
        if a[:mid * HEADER_SIZE] == b[:mid * HEADER_SIZE]:
            lo = mid
        else:
            hi = mid - 1
    return lo


# ---------------------------------------------------------------------------------------------------
# the cached base chain
# ---------------------------------------------------------------------------------------------------

BASE_LEN = 2100            # two check-pointable 1000-header chunks + 100 on top (first 1100 = one chunk + 100)
BASE_SEED = 0xC07
MINER_VERSION = 5
GENESIS_TIME = 1_500_000_000
# time deltas covering: far negative, around the lower clamp (<=6 -> 132), the trunc-vs-floor cases
# (13, 14, 15 ...), no change (143..157), around the upper clamp (>=750 -> 225), far positive
DELTAS_LOW = [-100000, -3600, -2, -1, 0, 1, 5, 6, 7, 13, 14, 15, 21, 22, 23, 70, 100, 141, 142, 143]
DELTAS_MID = [149, 150, 151, 157, 158, 159, 165, 166, 167]
DELTAS_HIGH = [200, 300, 450, 600, 741, 742, 749, 750, 751, 757, 758, 759, 1000, 5000, 100000]
ALL_DELTAS = DELTAS_LOW + DELTAS_MID + DELTAS_HIGH
HARD_LIMIT_DIV = 3         # miner guard: when the target falls below max_target/3 force a long timespan

_CACHE_DIR = os.path.join(os.path.dirname(os.path.dirname(os.path.dirname(os.path.abspath(__file__)))), 'cache')
BASE_PATH = os.path.join(_CACHE_DIR, 'c07_base_chain.bin')
_MAGIC = b'C07BASE1'
_PARAMS = repr((MINER_VERSION, BASE_LEN, BASE_SEED, MAX_TARGET, TIMESPAN, GENESIS_TIME,
                ALL_DELTAS, HARD_LIMIT_DIV)).encode()

_base = None               # (bytes, Chain) once loaded and validated in this process
base_info = {}             # how the base chain was obtained in this process (diagnostics / evidence)


def guard_delta(own_bits, delta, max_target=MAX_TARGET):
    """Keep mining cheap: the delta of header h (time(h) - time(h-1)) sets the target of header h+1;
    if the target of h itself is already hard, force the clamp that eases the next one."""
    if decode_compact(own_bits) * HARD_LIMIT_DIV < max_target and delta < 750:
        return 1000
    return delta


def clamp_time(t):
    return max(1_000_000_000, min(t, 4_000_000_000))


def _mine_base():
    r = random.Random(BASE_SEED)
    bits0 = encode_compact(MAX_TARGET)
    genesis, _ = mine_valid(1, bytes(32), r.randbytes(32), r.randbytes(32), GENESIS_TIME, bits0, 0)
    chain = [genesis]
    total = 0
    mode, left = 'mix', 0
    for h in range(1, BASE_LEN):
        parent = chain[-1]
        grand = chain[-2] if h >= 2 else None
        if left <= 0:      # stretches of one regime so the target really travels, then mixes
            mode = r.choice(['mix', 'mix', 'low', 'high', 'mid'])
            left = r.choice([3, 6, 10, 20])
        left -= 1
        pool = {'mix': ALL_DELTAS, 'low': DELTAS_LOW, 'high': DELTAS_HIGH, 'mid': DELTAS_MID}[mode]
        pt, pb = time_bits(parent)
        bits = next_bits(pb, pt, time_bits(grand)[0] if grand is not None else None)
        delta = guard_delta(bits, r.choice(pool))
        t = clamp_time(pt + delta)
        hdr, tries = mine_valid(r.choice([1, 1, 2, 0x20000000]), sha256d(parent), r.randbytes(32), r.randbytes(32),
                                t, bits, r.getrandbits(32))
        total += tries
        chain.append(hdr)
    base_info['mined_hashes'] = total
    return b''.join(chain)


def _read_cache():
    try:
        with open(BASE_PATH, 'rb') as f:
            blob = f.read()
    except OSError:
        return None
    want = len(_MAGIC) + 32 + BASE_LEN * HEADER_SIZE
    if len(blob) != want or not blob.startswith(_MAGIC):
        return None
    digest, data = blob[len(_MAGIC):len(_MAGIC) + 32], blob[len(_MAGIC) + 32:]
    if _sha256(_PARAMS + data).digest() != digest:
        return None
    return data


def _write_cache(data):
    try:
        os.makedirs(_CACHE_DIR, exist_ok=True)
        tmp = f'{BASE_PATH}.{os.getpid()}.tmp'
        with open(tmp, 'wb') as f:
            f.write(_MAGIC + _sha256(_PARAMS + data).digest() + data)
            f.flush()
            os.fsync(f.fileno())
        os.replace(tmp, BASE_PATH)      # atomic: concurrent workers write identical content
    except OSError:
        pass                            # cache is an optimisation only


def load_base_chain():
    """(bytes of BASE_LEN headers, Chain).  Loaded from the cache or mined (deterministically) and
    cached; validated once per process, from genesis, by the independent validator."""
    global _base
    if _base is not None:
        return _base
    data = _read_cache()
    base_info['source'] = 'cache'
    if data is None:
        data = _mine_base()
        base_info['source'] = 'mined'
        _write_cache(data)
    chain = Chain(sha256d(data[:HEADER_SIZE]))
    bad, rule = chain.first_invalid(data, 0, BASE_LEN)
    if bad != BASE_LEN or len(data) != BASE_LEN * HEADER_SIZE:
        raise RuntimeError(f'base chain does not validate at height {bad}: {rule}')
    base_info['digest'] = _sha256(data).hexdigest()[:16]
    _base = (data, chain)
    return _base


# ---------------------------------------------------------------------------------------------------
# headers "valid except for the proof-of-work rule, measured against the target the bits encode"
# ---------------------------------------------------------------------------------------------------
# The retarget result is rounded DOWN when it is written as compact bits; a hash between decode(bits) and the
# un-rounded value fails lbrycrd's CheckProofOfWork.  The window is 2^-16 of the valid hashes at best (2^24 hashes
# per header, 1.5 CPU-minutes in Python), so these were mined once, off-line, on top of fixed heights of the base
# chain and are verified against it when they are loaded (stale entries are dropped, never re-mined in a check).
BAND_HEADERS_HEX = {
    12: '0100000039375157d65797d2db53968d02d320f846f9c030e83008db2786e12bc2ff4c330c0c0c0c0c0c0c0c0c0c0c0c'
        '0c0c0c0c0c0c0c0c0c0c0c0c0c0c0c0c0c0c0c0c00000000000000000000000000000000000000000000000000000000'
        '00000000c9be6959ffff00201d793300',
    1050: '0100000012fd4025256dd8a31b4047e7c2d0562b291e9e04146d861a68f531540f2551181a1a1a1a1a1a1a1a1a1a1a1a'
        '1a1a1a1a1a1a1a1a1a1a1a1a1a1a1a1a1a1a1a1a04040404040404040404040404040404040404040404040404040404'
        '0404040498107159ffff002008152b00',
    2003: '0100000064b646c4e6b4702be3e68ba4eea52f4e7d73fa9a4db3294adf48c23dc52f1775d3d3d3d3d3d3d3d3d3d3d3d3'
        'd3d3d3d3d3d3d3d3d3d3d3d3d3d3d3d3d3d3d3d307070707070707070707070707070707070707070707070707070707'
        '0707070780e97859ffff00209b0cc102',
}
_band = None


def band_headers():
    """{height: header} - each links to base[height-1], carries exactly the demanded bits, and its PoW hash lies
    above decode(bits) but (safely) below the un-rounded retarget value."""
    global _band
    if _band is None:
        data, _chain = load_base_chain()
        _band = {}
        for h, hx in BAND_HEADERS_HEX.items():
            hdr = bytes.fromhex(hx)
            parent, grand = data[(h - 1) * HEADER_SIZE:h * HEADER_SIZE], data[(h - 2) * HEADER_SIZE:(h - 1) * HEADER_SIZE]
            if len(hdr) != HEADER_SIZE or len(parent) != HEADER_SIZE or len(grand) != HEADER_SIZE:
                continue
            pt, pb = time_bits(parent)
            full = next_target(pb, pt, time_bits(grand)[0])
            bits = time_bits(hdr)[1]
            if hdr[4:36] == sha256d(parent) and bits == encode_compact(full) and \
                    decode_compact(bits) < pow_int(hdr) <= full - (full >> 40):
                _band[h] = hdr
    return _band
