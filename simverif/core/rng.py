"""PRNG discipline (DESIGN.md §4.6): one integer decides everything; every decision site owns a stream."""
import hashlib
import random


def H(*parts) -> int:
    h = hashlib.sha256()
    for p in parts:
        h.update(repr(p).encode())
        h.update(b'\x00')
    return int.from_bytes(h.digest()[:8], 'big')


def stream(*parts) -> random.Random:
    return random.Random(H(*parts))


class Streams:
    def __init__(self, run_seed: int):
        self.run_seed = run_seed
        self._cache = {}

    def __call__(self, site: str, entity='') -> random.Random:
        key = (site, entity)
        r = self._cache.get(key)
        if r is None:
            r = self._cache[key] = random.Random(H(self.run_seed, site, entity))
        return r
