"""Worker process: executes scenarios of one property in a fresh interpreter with a pinned
PYTHONHASHSEED.  Modes: batch | replay | minimize.  Talks to the orchestrator through JSON files."""
import argparse
import faulthandler
import importlib
import json
import os
import sys
import traceback

from . import env
from .rng import H

HASHSEEDS = (0, 1, 2)
RUN_WALL_LIMIT_S = int(os.environ.get('VERIF_RUN_WALL_LIMIT_S', '300'))


def load_prop(pid):
    env.install()
    mod = importlib.import_module(f'simverif.props.{pid.lower()}')
    # Run.finish() collects garbage at a deterministic point of every run; freezing what is alive
    # after the imports keeps that collection from re-scanning the whole module graph each time.
    try:
        env.import_lbry()
        warm = getattr(mod, 'warm_imports', None)
        if warm is not None:
            warm()
    finally:
        import gc
        gc.collect()
        gc.freeze()
    return mod


def run_seed_for(base_seed, pid, index):
    return H('run', base_seed, pid, index)


def safe_execute(prop, scenario, keep_trace=False):
    """Execute one scenario; harness exceptions are classified apart from violations."""
    faulthandler.dump_traceback_later(RUN_WALL_LIMIT_S, exit=True)
    try:
        res = prop.execute(scenario, keep_trace=keep_trace)
        return res
    except BaseException as e:  # noqa
        if isinstance(e, KeyboardInterrupt):
            raise
        return {'outcome': 'harness_error', 'violations': [], 'digest': 'error',
                'faults': {}, 'probes': {}, 'sim_time': 0.0, 'steps': 0, 'exec_jobs': 0, 'events': 0,
                'nontrivial': False, 'notes': [],
                'error': ''.join(traceback.format_exception(type(e), e, e.__traceback__))[-4000:]}
    finally:
        faulthandler.cancel_dump_traceback_later()
        try:
            env.exit_run()
        except Exception:
            pass


def site_key(v):
    return json.dumps([v['kind'], v.get('site', {})], sort_keys=True, default=str)


def batch(args):
    import time
    prop = load_prop(args.prop)
    slot = args.slot                      # index % len(HASHSEEDS) == slot
    assert int(os.environ.get('PYTHONHASHSEED', '-1')) == HASHSEEDS[slot], 'hashseed not pinned'
    deadline = env.real_time() + args.seconds if args.seconds else None
    agg = {
        'runs': 0, 'outcomes': {}, 'faults': {}, 'probes': {}, 'sim_time': 0.0, 'steps': 0,
        'exec_jobs': 0, 'digests_nontrivial': [], 'digest_by_index': {}, 'violating': [], 'samples': [],
        'harness_errors': [], 'families': {}, 'events': 0, 'slowest': [],
    }
    seen_classes = {}
    digests = set()
    # indices handled by this worker: those of its slot, striped over the workers of the slot; the
    # first `det` indices of the slot are executed by *every* worker of the slot (determinism pairs).
    k = 0
    sub = 0
    while True:
        if args.max_runs and agg['runs'] >= args.max_runs:
            break
        if deadline and env.real_time() >= deadline:
            break
        if k < args.det:
            index = slot + len(HASHSEEDS) * ((args.det - 1 - k) if args.det_reverse else k)
            is_det = True
        else:
            index = slot + len(HASHSEEDS) * (args.det + sub * args.nsub + args.sub)
            sub += 1
            is_det = False
        k += 1
        if args.limit_index and index >= args.limit_index and not is_det:
            break
        rs = run_seed_for(args.base_seed, prop.ID, index)
        scenario = prop.gen(rs, args.tier)
        scenario.update(property=prop.ID, run_seed=rs, index=index, hashseed=HASHSEEDS[slot],
                        base_seed=args.base_seed, tier=args.tier)
        t_run = env.real_time()
        res = safe_execute(prop, scenario)
        t_run = env.real_time() - t_run
        agg['slowest'].append((round(t_run, 2), index, scenario.get('family', '-')))
        if len(agg['slowest']) > 40:
            agg['slowest'] = sorted(agg['slowest'], reverse=True)[:5]
        if is_det:
            agg['digest_by_index'][str(index)] = res['digest']
            if args.sub != 0:
                continue   # duplicates of the determinism sample are not counted twice
        agg['runs'] += 1
        agg['outcomes'][res['outcome']] = agg['outcomes'].get(res['outcome'], 0) + 1
        fam = scenario.get('family', '-')
        agg['families'][fam] = agg['families'].get(fam, 0) + 1
        for key in ('faults', 'probes'):
            for n, c in res[key].items():
                agg[key][n] = agg[key].get(n, 0) + c
        agg['sim_time'] += res['sim_time']
        agg['steps'] += res['steps']
        agg['exec_jobs'] += res['exec_jobs']
        agg['events'] += res['events']
        if res['nontrivial']:
            digests.add(res['digest'])
        if len(agg['samples']) < 2 and res['outcome'] == 'ok' and res['nontrivial']:
            agg['samples'].append({'scenario': _clip(scenario), 'result': {
                kk: res[kk] for kk in ('outcome', 'digest', 'faults', 'probes', 'sim_time', 'steps')}})
        if res['outcome'] == 'harness_error':
            if len(agg['harness_errors']) < 5:
                agg['harness_errors'].append({'index': index, 'error': res.get('error', '')})
        for v in res['violations']:
            ck = site_key(v)
            n = seen_classes.get(ck, 0)
            seen_classes[ck] = n + 1
            if n == 0 and len(agg['violating']) < 40:
                agg['violating'].append({'scenario': scenario, 'violation': v, 'digest': res['digest']})
    agg['slowest'] = sorted(agg['slowest'], reverse=True)[:5]
    agg['digests_nontrivial'] = sorted(digests)
    agg['violation_classes'] = seen_classes
    with open(args.out, 'w') as f:
        json.dump(agg, f)


def _clip(obj, limit=4000):
    s = json.dumps(obj, default=str)
    if len(s) <= limit:
        return obj
    if isinstance(obj, dict) and 'ops' in obj and isinstance(obj['ops'], list):
        o = dict(obj)
        o['ops'] = obj['ops'][:12] + [f'... {len(obj["ops"]) - 12} more ops']
        s = json.dumps(o, default=str)
        if len(s) <= 3 * limit:
            return o
    return {'clipped': s[:limit]}


def replay(args):
    prop = load_prop(args.prop)
    scenario = json.load(open(args.scenario))
    scenario = scenario.get('scenario', scenario)
    assert int(os.environ.get('PYTHONHASHSEED', '-1')) == scenario.get('hashseed', 0), 'hashseed mismatch'
    res = safe_execute(prop, scenario, keep_trace=args.trace)
    with open(args.out, 'w') as f:
        json.dump(res, f)


def _has_kind(res, kind):
    return any(v['kind'] == kind for v in res['violations'])


def minimize(args):
    """ddmin over scenario['ops'] + property-specific simplifications, keeping the violation kind."""
    prop = load_prop(args.prop)
    scenario = json.load(open(args.scenario))
    kind = args.kind
    budget = [args.budget]
    tried = [0]

    def fails(sc):
        if budget[0] <= 0:
            return False
        budget[0] -= 1
        tried[0] += 1
        res = safe_execute(prop, sc)
        return res['outcome'] != 'harness_error' and _has_kind(res, kind)

    best = scenario
    if not fails(best):
        json.dump({'scenario': scenario, 'minimized': False, 'tried': tried[0],
                   'note': 'original did not reproduce in minimiser'}, open(args.out, 'w'))
        return
    changed = True
    while changed and budget[0] > 0:
        changed = False
        ops = best.get('ops')
        if isinstance(ops, list) and len(ops) > 1:
            n = 2
            while len(ops) >= 1 and budget[0] > 0:
                chunk = max(1, len(ops) // n)
                removed = False
                i = 0
                while i < len(ops) and budget[0] > 0:
                    cand_ops = ops[:i] + ops[i + chunk:]
                    cand = dict(best, ops=cand_ops)
                    if fails(cand):
                        best, ops, removed, changed = cand, cand_ops, True, True
                    else:
                        i += chunk
                if chunk == 1 and not removed:
                    break
                if not removed:
                    n = min(len(ops), n * 2) if len(ops) else 1
                if not ops:
                    break
        shrink = getattr(prop, 'shrink', None)
        if shrink is not None:
            progress = True
            while progress and budget[0] > 0:
                progress = False
                for cand in shrink(best):
                    if budget[0] <= 0:
                        break
                    if fails(cand):
                        best, progress, changed = cand, True, True
                        break
    json.dump({'scenario': best, 'minimized': True, 'tried': tried[0],
               'ops_before': len(scenario.get('ops', []) or []),
               'ops_after': len(best.get('ops', []) or [])}, open(args.out, 'w'))


def main(argv=None):
    ap = argparse.ArgumentParser()
    ap.add_argument('mode', choices=['batch', 'replay', 'minimize'])
    ap.add_argument('prop')
    ap.add_argument('--tier', default='quick')
    ap.add_argument('--base-seed', type=int, default=0)
    ap.add_argument('--slot', type=int, default=0)
    ap.add_argument('--sub', type=int, default=0)
    ap.add_argument('--nsub', type=int, default=1)
    ap.add_argument('--det', type=int, default=0)
    ap.add_argument('--det-reverse', action='store_true')
    ap.add_argument('--max-runs', type=int, default=0)
    ap.add_argument('--limit-index', type=int, default=0)
    ap.add_argument('--seconds', type=float, default=0)
    ap.add_argument('--scenario')
    ap.add_argument('--kind')
    ap.add_argument('--budget', type=int, default=200)
    ap.add_argument('--trace', action='store_true')
    ap.add_argument('--out', required=True)
    args = ap.parse_args(argv)
    faulthandler.enable()
    {'batch': batch, 'replay': replay, 'minimize': minimize}[args.mode](args)


if __name__ == '__main__':
    main()
