"""Virtual-time asyncio event loop (DESIGN.md §4.1).

One `SimLoop` is one process incarnation.  There is no selector, no thread and no real sleep: when
nothing is runnable the clock jumps to the earliest timer.  `run_in_executor` turns the job into a
timer event executed inline on the loop thread at a scheduler-chosen virtual instant.
"""
import asyncio
import asyncio.base_events
import heapq
import random
from asyncio import events

_MIN_SCHEDULED_TIMER_HANDLES = 100
_MIN_CANCELLED_TIMER_HANDLES_FRACTION = 0.5


class SimCrash(BaseException):
    """The simulated process dies here.  Raised out of `run_forever` by the loop itself."""


class SimBudget(BaseException):
    """Step or virtual-time budget of the run exhausted (outcome `budget`, never a violation)."""


class SimIdle(BaseException):
    """Nothing runnable and no timer left while the driver still waits: a deadlock of the run."""


class _InertExecutor:
    """Stands in for ThreadPoolExecutor / ProcessPoolExecutor objects created by product code.
    Never runs anything itself: `SimLoop.run_in_executor` executes the job inline."""

    def __init__(self, max_workers=None, *args, **kwargs):
        self.max_workers = max_workers
        self.initializer = kwargs.get('initializer')
        self.initargs = kwargs.get('initargs', ())
        self._initialized = False
        self._shutdown = False

    def submit(self, fn, *args, **kwargs):  # pragma: no cover - product code always goes via loop
        raise RuntimeError("inert executor: submit() outside SimLoop.run_in_executor")

    def shutdown(self, wait=True, **kwargs):
        self._shutdown = True


class SimLoop(asyncio.base_events.BaseEventLoop):
    def __init__(self, start_time=1_000_000.0, exec_rng=None, exec_delay=(0.0, 0.002),
                 max_steps=5_000_000, max_vtime=None):
        super().__init__()
        self._vtime = float(start_time)
        self._start_time = float(start_time)
        self._selector = None
        self.steps = 0
        self.max_steps = max_steps
        self.max_vtime = max_vtime
        self.exec_rng = exec_rng or random.Random(0)
        self.exec_delay = exec_delay
        self.exec_jobs = 0
        self._exec_last = {}           # id(executor) -> last completion time (FIFO executors)
        self.exec_hook = None          # fn(executor, fn, args) -> extra delay or None (observation / buggify)
        self.after_exec_job = None     # fn(loop, fn, args) called right after an inline executor job
        self.crash_requested = None    # set to a reason string -> loop raises SimCrash before the next handle
        self.dead = False
        self.task_failures = []        # (vtime, task name, repr(exception))
        self.callback_errors = []      # (vtime, message, repr(exception))
        self._task_counter = 0
        self.set_task_factory(self._sim_task_factory)
        self.set_exception_handler(self._on_exception)
        self.after_handle = None       # optional fn(loop) run after every handle (cheap invariants)

    # ---- clock ------------------------------------------------------------------------------
    def time(self):
        return self._vtime

    def elapsed(self):
        return self._vtime - self._start_time

    def advance(self, seconds):
        """Clock jump (stalled process / NTP step).  Due timers fire on the next iteration."""
        self._vtime += seconds

    # ---- plumbing BaseEventLoop expects --------------------------------------------------------
    def _process_events(self, event_list):
        pass

    def _write_to_self(self):
        pass

    def _sim_task_factory(self, loop, coro, **kwargs):
        self._task_counter += 1
        kwargs.setdefault('name', None)
        name = kwargs.pop('name') or f"T{self._task_counter}:{getattr(coro, '__qualname__', type(coro).__name__)}"
        task = asyncio.Task(coro, loop=loop, name=name, **kwargs)
        task.add_done_callback(self._task_done)
        return task

    def _task_done(self, task):
        if task.cancelled():
            return
        exc = task._exception  # do not mark as retrieved
        if exc is not None:
            self.task_failures.append((round(self.elapsed(), 6), task.get_name().split(':', 1)[-1],
                                       f"{type(exc).__name__}: {exc}"[:300]))

    def _on_exception(self, loop, context):
        exc = context.get('exception')
        msg = context.get('message', '')
        if msg.startswith('Task exception was never retrieved') or \
                msg.startswith('Future exception was never retrieved'):
            return
        self.callback_errors.append((round(self.elapsed(), 6), msg[:120],
                                     f"{type(exc).__name__}: {exc}"[:300] if exc else ''))

    # ---- the scheduler -----------------------------------------------------------------------------
    def _run_once(self):
        sched = self._scheduled
        if (len(sched) > _MIN_SCHEDULED_TIMER_HANDLES and
                self._timer_cancelled_count / len(sched) > _MIN_CANCELLED_TIMER_HANDLES_FRACTION):
            new = []
            for handle in sched:
                if handle._cancelled:
                    handle._scheduled = False
                else:
                    new.append(handle)
            heapq.heapify(new)
            self._scheduled = sched = new
            self._timer_cancelled_count = 0
        else:
            while sched and sched[0]._cancelled:
                self._timer_cancelled_count -= 1
                handle = heapq.heappop(sched)
                handle._scheduled = False

        if not self._ready:
            if not sched:
                if self._stopping:
                    return
                raise SimIdle()
            when = sched[0]._when
            if when > self._vtime:
                self._vtime = when
                if self.max_vtime is not None and self._vtime - self._start_time > self.max_vtime:
                    raise SimBudget('vtime')

        end_time = self._vtime + self._clock_resolution
        while sched:
            handle = sched[0]
            if handle._when >= end_time:
                break
            handle = heapq.heappop(sched)
            handle._scheduled = False
            self._ready.append(handle)

        ntodo = len(self._ready)
        for _ in range(ntodo):
            if self.crash_requested is not None:
                self.dead = True
                raise SimCrash(self.crash_requested)
            handle = self._ready.popleft()
            if handle._cancelled:
                continue
            self.steps += 1
            handle._run()
            if self.after_handle is not None:
                self.after_handle(self)
        handle = None
        if self.crash_requested is not None:
            self.dead = True
            raise SimCrash(self.crash_requested)
        if self.steps > self.max_steps:
            raise SimBudget('steps')

    # ---- executor seam ------------------------------------------------------------------------------
    def run_in_executor(self, executor, func, *args):
        self._check_closed()
        fut = self.create_future()
        lo, hi = self.exec_delay
        delay = lo + (hi - lo) * self.exec_rng.random()
        if self.exec_hook is not None:
            extra = self.exec_hook(executor, func, args)
            if extra:
                delay += extra
        when = self._vtime + delay
        fifo = executor is not None and (getattr(executor, 'max_workers', None) == 1 or
                                         getattr(executor, '_max_workers', None) == 1)
        if fifo:
            last = self._exec_last.get(id(executor), 0.0)
            if when <= last:
                when = last + 1e-6
            self._exec_last[id(executor)] = when
        self.call_at(when, self._run_job, fut, executor, func, args)
        return fut

    def _run_job(self, fut, executor, func, args):
        if fut.cancelled():
            # a real pool may or may not have started the job; asyncio cancels the concurrent future,
            # which succeeds only if it has not started.  Not starting it is one legal outcome.
            return
        self.exec_jobs += 1
        if executor is not None and getattr(executor, 'initializer', None) and \
                not getattr(executor, '_initialized', True):
            executor._initialized = True
            executor.initializer(*executor.initargs)
        try:
            result = func(*args)
        except (SimCrash, SimBudget):
            raise
        except BaseException as exc:  # noqa
            if not fut.cancelled():
                fut.set_exception(exc)
        else:
            if not fut.cancelled():
                fut.set_result(result)
        if self.after_exec_job is not None:
            self.after_exec_job(self, func, args)

    def set_default_executor(self, executor):
        self._default_executor = None

    async def shutdown_default_executor(self, timeout=None):
        return

    # ---- driving ---------------------------------------------------------------------------------
    def run(self, coro):
        """run_until_complete that lets SimCrash/SimBudget/SimIdle propagate."""
        asyncio.set_event_loop(self)
        return self.run_until_complete(coro)

    def crash(self, reason='crash'):
        self.crash_requested = reason

    def abandon(self):
        """Drop everything scheduled (used after a crash: the process is gone)."""
        self.dead = True
        self._ready.clear()
        self._scheduled.clear()
        events._set_running_loop(None)
        try:
            if not self.is_closed():
                self.close()
        except Exception:  # pragma: no cover
            pass
