"""Shared helpers of the blob-storage harnesses (C18, C19): real temp directories, real `Config`,
real `SQLiteStorage` on the SimLoop executor seam, harness-side observation of the sqlite tables and
of the blob directory, and small drivers that make blobs arrive the way the product receives them
(writers for downloads, `StreamDescriptor.create_stream` for publishes).

Everything here is harness code: observation goes through an *own* sqlite3 connection and `os`
calls, never through the product helpers whose behaviour is under test.  Product modules are
imported inside the functions (after `env.import_lbry()` of the caller).
"""
import hashlib
import os
import random
import re
import shutil
import sqlite3
import tempfile

MIB = 1024 * 1024
VALID_NAME = re.compile(r'\A[0-9a-f]{96}\Z')     # the harness' own definition of a blob file name


# ---------------------------------------------------------------------------------------------------
# environment
# ---------------------------------------------------------------------------------------------------

_frozen = False


def freeze_heap_once():
    """The imported product modules hold ~10^6 long-lived objects; every deterministic `gc.collect()`
    (one per incarnation) would rescan them (~40 ms).  Freeze them once per worker process."""
    global _frozen
    if not _frozen:
        import gc
        gc.collect()
        gc.freeze()
        _frozen = True


def patch_sqlite_executors():
    """No thread / process is ever created: AIOSQLite's executors become inert tokens and every job
    runs inline through SimLoop.run_in_executor (one job = one complete sqlite transaction)."""
    import lbry.wallet.database as d
    from simverif.core.loop import _InertExecutor
    d.ThreadPoolExecutor = _InertExecutor
    d.ReaderExecutorClass = _InertExecutor


class Dirs:
    def __init__(self, prefix='sv-blob-'):
        self.root = tempfile.mkdtemp(prefix=prefix)
        self.data = os.path.join(self.root, 'data')
        self.blobs = os.path.join(self.data, 'blobfiles')
        self.wallet = os.path.join(self.root, 'wallet')
        self.downloads = os.path.join(self.root, 'downloads')
        self.remote = os.path.join(self.root, 'remote')       # blob dir of a "remote publisher"
        self.db = os.path.join(self.root, 'db')               # sqlite lives apart from the blob files
        for p in (self.data, self.blobs, self.wallet, self.downloads, self.remote, self.db):
            os.makedirs(p)
        self.db_path = os.path.join(self.db, 'lbrynet.sqlite')

    def remove(self):
        shutil.rmtree(self.root, ignore_errors=True)


def make_config(dirs, **settings):
    from lbry.conf import Config
    conf = Config(data_dir=dirs.data, wallet_dir=dirs.wallet, download_dir=dirs.downloads)
    conf.track_bandwidth = False          # no perpetual ticker in BlobManager.setup
    for k, v in settings.items():
        setattr(conf, k, v)
    return conf


async def open_storage(loop, conf, dirs):
    from lbry.extras.daemon.storage import SQLiteStorage
    patch_sqlite_executors()
    storage = SQLiteStorage(conf, dirs.db_path, loop)
    await storage.open()
    return storage


def hard_close(storage):
    """The incarnation is dead: close the raw sqlite connection without committing anything further.
    Every executor job is one complete `begin … commit`, and a simulated death lands only on job
    boundaries, so no transaction is open; `rollback` is defensive."""
    db = getattr(storage, 'db', None)
    conn = getattr(db, 'writer_connection', None) if db is not None else None
    if conn is not None:
        try:
            if conn.in_transaction:
                conn.rollback()
        except sqlite3.Error:
            pass
        try:
            conn.close()
        except sqlite3.Error:
            pass
        db.writer_connection = None
    if db is not None:
        db._closing = True


# ---------------------------------------------------------------------------------------------------
# observation (own SQL, own directory listing; always sorted)
# ---------------------------------------------------------------------------------------------------

def db_snapshot(db_path):
    """Committed content of the tables the blob properties speak about, read through a separate
    connection.  Returns plain sorted lists."""
    if not os.path.exists(db_path):
        return {'blob': [], 'stream': [], 'stream_blob': [], 'file': []}
    conn = sqlite3.connect(db_path)
    try:
        tables = {r[0] for r in conn.execute("select name from sqlite_master where type='table'")}
        out = {'blob': [], 'stream': [], 'stream_blob': [], 'file': []}
        if 'blob' in tables:
            out['blob'] = sorted(conn.execute(
                "select blob_hash, blob_length, status, is_mine, added_on from blob").fetchall())
        if 'stream' in tables:
            out['stream'] = sorted(conn.execute("select stream_hash, sd_hash from stream").fetchall())
        if 'stream_blob' in tables:
            out['stream_blob'] = sorted(conn.execute(
                "select stream_hash, blob_hash, position from stream_blob where blob_hash is not null").fetchall())
        if 'file' in tables:
            out['file'] = sorted(r[0] for r in conn.execute(
                "select stream_hash from file where stream_hash is not null").fetchall())
        return out
    finally:
        conn.close()


def blob_status_map(db_path):
    return {h: st for h, _l, st, _m, _a in db_snapshot(db_path)['blob']}


def list_dir(path):
    """Sorted names of regular files (raw listing order never reaches a trace)."""
    out = []
    with os.scandir(path) as it:
        for e in it:
            if e.is_file(follow_symlinks=False):
                out.append(e.name)
    return sorted(out)


def dir_sizes(path):
    """{name: size in bytes} of the regular files of a directory (the harness' own reading of what is
    really on disk; a dict, iterate it sorted)."""
    out = {}
    with os.scandir(path) as it:
        for e in it:
            if e.is_file(follow_symlinks=False):
                out[e.name] = e.stat(follow_symlinks=False).st_size
    return out


def sparse_file(path, size):
    """A file of `size` bytes without materialising them (stands in for a blob whose bytes never
    matter: every size the product can observe - stat, BlobFile length check - is the real one)."""
    with open(path, 'wb') as f:
        if size > 0:
            f.truncate(size)


def valid_blob_files(path):
    return [n for n in list_dir(path) if VALID_NAME.match(n)]


# ---------------------------------------------------------------------------------------------------
# data
# ---------------------------------------------------------------------------------------------------

def det_bytes(seed, n):
    """n deterministic pseudo-random bytes (distinct seeds give distinct blobs)."""
    return random.Random(f'blob-bytes:{seed}').randbytes(n) if n else b''


def blob_hash_of(data: bytes) -> str:
    return hashlib.sha384(data).hexdigest()


def label_hash(*label) -> str:
    """A well-formed blob hash for a blob whose bytes are never materialised (synthetic lengths)."""
    return hashlib.sha384(repr(label).encode()).hexdigest()


# ---------------------------------------------------------------------------------------------------
# drivers: blobs arrive like in the product
# ---------------------------------------------------------------------------------------------------

class CompletionTracker:
    """Wraps `blob_manager.blob_completed` on the instance (observation only) to keep the
    `add_blobs` tasks it starts, so a driver can wait for quiescence of the bookkeeping."""

    def __init__(self, blob_manager):
        self.tasks = []
        self.calls = 0
        orig = blob_manager.blob_completed

        def observed(blob):
            self.calls += 1
            task = orig(blob)
            self.tasks.append(task)
            return task
        blob_manager.blob_completed = observed

    async def settle(self):
        import asyncio
        while self.tasks:
            tasks, self.tasks = self.tasks, []
            await asyncio.gather(*tasks, return_exceptions=True)


async def download_blob(blob_manager, data: bytes, chunks=1, is_mine=False, wait=True,
                        peer=('10.0.0.1', 3333)):
    """One blob arrives through a real HashBlobWriter, as from a peer.  Returns (blob, outcome)."""
    blob_hash = blob_hash_of(data)
    blob = blob_manager.get_blob(blob_hash, len(data), is_mine)
    if blob.get_is_verified():
        return blob, 'already'
    try:
        writer = blob.get_blob_writer(*peer)
    except OSError:
        return blob, 'exists'
    n = max(1, min(chunks, len(data)))
    step = (len(data) + n - 1) // n
    try:
        for i in range(0, len(data), step):
            writer.write(data[i:i + step])
    except OSError:
        # e.g. "unknown blob length": BlobFile.__init__ found a stale file of another size, removed it and
        # forgot the length it was given; a real download fails the same way and is retried
        writer.close_handle()
        return blob, 'write_error'
    if wait:
        await blob.verified.wait()
    return blob, 'written'


async def publish_stream(loop, blob_manager, storage, file_path, with_file=True):
    """The product's publish sequence (StreamManager.create without the claim)."""
    from lbry.stream.descriptor import StreamDescriptor
    descriptor = await StreamDescriptor.create_stream(
        loop, blob_manager.blob_dir, file_path, blob_completed_callback=blob_manager.blob_completed)
    await storage.store_stream(blob_manager.get_blob(descriptor.sd_hash, is_mine=True), descriptor)
    if with_file:
        await storage.save_published_file(descriptor.stream_hash, os.path.basename(file_path),
                                          os.path.dirname(file_path), 0)
    return descriptor


async def make_remote_stream(loop, remote_dir, file_path):
    """A stream published by somebody else: created with the real code in a separate blob dir, no
    bookkeeping.  Returns (descriptor, {blob_hash: bytes}) including the sd blob."""
    from lbry.stream.descriptor import StreamDescriptor
    descriptor = await StreamDescriptor.create_stream(loop, remote_dir, file_path)
    blobs = {}
    for h in [b.blob_hash for b in descriptor.blobs[:-1]] + [descriptor.sd_hash]:
        with open(os.path.join(remote_dir, h), 'rb') as f:
            blobs[h] = f.read()
    return descriptor, blobs


async def download_stream(loop, blob_manager, storage, sd_hash, remote_blobs, take=None, with_file=True,
                          download_dir=None):
    """The product's download sequence: sd blob through a writer, descriptor parsed from it,
    store_stream, content blobs through writers (only indices in `take` if given), file row."""
    from lbry.stream.descriptor import StreamDescriptor
    sd_blob, _ = await download_blob(blob_manager, remote_blobs[sd_hash])
    descriptor = await StreamDescriptor.from_stream_descriptor_blob(loop, blob_manager.blob_dir, sd_blob)
    await storage.store_stream(blob_manager.get_blob(sd_hash, length=descriptor.length), descriptor)
    for i, info in enumerate(descriptor.blobs[:-1]):
        if take is not None and i not in take:
            continue
        await download_blob(blob_manager, remote_blobs[info.blob_hash])
    if with_file:
        await storage.save_downloaded_file(descriptor.stream_hash, None, None, 0.0)
    return descriptor


async def save_stream_claim(storage, sd_hash, seq):
    """What the daemon does after a publish / a download from a claim: the claim naming this stream is
    stored; `save_claims` itself links it to the stream's `file` row (content_claim).  Only streams
    with such a claim are listed by `get_all_lbry_files`, i.e. loaded and recovered at start-up."""
    from lbry.schema.claim import Claim
    claim = Claim()
    claim.stream.source.sd_hash = sd_hash
    await storage.save_claims([{
        'claim_id': '%040x' % (seq + 1), 'name': f'claim{seq}', 'amount': '1.0',
        'address': 'bT6wc54qiUUYt34HQF9wnW8b2o2yQTXf2S', 'txid': '%064x' % (seq + 1), 'nout': 0,
        'value': claim, 'height': -1, 'claim_sequence': -1,
    }])
