"""Process-wide seams for ambient nondeterminism (DESIGN.md §4.2).

`install()` must run before any `lbry` module is imported so that `from time import perf_counter`
style imports capture the proxies.  Outside a simulated run the proxies fall through to the real
functions, so the runner's own wall-clock accounting is unaffected (it uses `real_time`).
"""
import os
import random
import sys
import time

REPO = os.environ.get('VERIF_REPO', '/repo')
SHIMS = os.path.join(os.path.dirname(os.path.dirname(os.path.abspath(__file__))), 'shims')
EPOCH_OFFSET = 1_700_000_000.0 - 1_000_000.0   # wall epoch of virtual time 1_000_000.0

real_time = time.time
real_perf_counter = time.perf_counter
real_monotonic = time.monotonic
real_urandom = os.urandom

_clock = None        # callable -> virtual seconds (loop.time)
_urandom_rng = None  # random.Random for os.urandom
_installed = False
urandom_calls = 0


def _sim_time():
    return _clock() + EPOCH_OFFSET if _clock is not None else real_time()


def _sim_time_ns():
    return int(_sim_time() * 1e9)


def _sim_perf_counter():
    return _clock() if _clock is not None else real_perf_counter()


def _sim_monotonic():
    return _clock() if _clock is not None else real_monotonic()


def _sim_sleep(_seconds):
    if _clock is not None:
        raise RuntimeError("time.sleep() inside a simulated run")
    return _real_sleep(_seconds)


_real_sleep = time.sleep


def _sim_urandom(n):
    global urandom_calls
    if _urandom_rng is None:
        return real_urandom(n)
    urandom_calls += 1
    return _urandom_rng.getrandbits(8 * n).to_bytes(n, 'big') if n else b''


def install():
    global _installed
    if _installed:
        return
    _installed = True
    os.environ.setdefault('PROTOCOL_BUFFERS_PYTHON_IMPLEMENTATION', 'python')
    sys.dont_write_bytecode = True
    for p in (SHIMS, REPO):
        if p in sys.path:
            sys.path.remove(p)
    sys.path.insert(0, REPO)
    sys.path.insert(0, SHIMS)
    time.time = _sim_time
    time.time_ns = _sim_time_ns
    time.perf_counter = _sim_perf_counter
    time.monotonic = _sim_monotonic
    time.sleep = _sim_sleep
    os.urandom = _sim_urandom
    import logging
    logging.disable(logging.CRITICAL)


def import_lbry():
    install()
    import lbry.wallet  # noqa: F401  (must precede lbry.conf: circular import otherwise)
    import lbry.conf    # noqa: F401
    import lbry
    assert os.path.realpath(lbry.__file__).startswith(os.path.realpath(REPO) + os.sep), lbry.__file__


def enter_run(loop, streams):
    """Bind ambient sources to this run."""
    global _clock, _urandom_rng
    _clock = loop.time
    _urandom_rng = streams('ambient', 'urandom')
    random.seed(streams('ambient', 'random').getrandbits(64))
    reset_caches()


def rebind_clock(loop):
    global _clock
    _clock = loop.time


def exit_run():
    global _clock, _urandom_rng
    _clock = None
    _urandom_rng = None
    reset_caches()


def _closure_cells(fn, names):
    out = {}
    code = getattr(fn, '__code__', None)
    if not code or not fn.__closure__:
        return out
    for name, cell in zip(code.co_freevars, fn.__closure__):
        if name in names:
            try:
                out[name] = cell.cell_contents
            except ValueError:
                pass
    return out


def reset_caches():
    """Empty process-global caches so no state (or task of a dead loop) leaks between runs."""
    mods = sys.modules
    m = mods.get('lbry.dht.peer')
    if m is not None:
        m.make_kademlia_peer.cache_clear()
    m = mods.get('lbry.dht.protocol.protocol')
    if m is not None:
        try:
            m.KademliaProtocol.get_rpc_peer.cache_clear()
        except AttributeError:
            pass
    m = mods.get('lbry.wallet.rpc.util')
    if m is not None:
        for v in vars(m).values():
            if hasattr(v, 'cache_clear'):
                v.cache_clear()
    # cache_concurrent / async_timed_cache closures
    targets = []
    m = mods.get('lbry.blob_exchange.client')
    if m is not None:
        targets.append(m.request_blob)
    m = mods.get('lbry.blob_exchange.downloader')
    if m is not None:
        targets.append(m.BlobDownloader.download_blob)
    m = mods.get('lbry.utils')
    if m is not None:
        targets.append(m.resolve_host)
    for fn in targets:
        seen = 0
        while fn is not None and seen < 4:
            seen += 1
            cells = _closure_cells(fn, ('cache', 'concurrent_cache'))
            for c in cells.values():
                if isinstance(c, dict):
                    c.clear()
            inner = _closure_cells(fn, ('async_fn', 'func', 'fn'))
            fn = next(iter(inner.values()), None) if inner else getattr(fn, '__wrapped__', None)
