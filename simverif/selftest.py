"""./check selftest [--runs K] : determinism protocol (DESIGN.md §4.7).

For every claimed property: the first K run indices of each PYTHONHASHSEED slot are executed in
fresh interpreters twice - once by a single worker per slot, once striped over 5 workers per slot
in reverse order (so the same scenario runs after a different prefix of other runs) - and the SHA-256 trace digests
are compared.  Any difference fails the self-test and names the first differing index."""
import json
import os
import shutil
import subprocess
import tempfile
import time

from simverif import cli


def _digests(pid, k, nsub, scratch, tag, seed):
    procs = []
    for slot in range(3):
        for sub in range(nsub):
            out = os.path.join(scratch, f'{pid}-{tag}-{slot}-{sub}.json')
            extra = ['--tier', 'quick', '--base-seed', str(seed), '--slot', str(slot), '--sub', str(sub), '--nsub', str(nsub),
                     '--det', str(k), '--limit-index', '1', '--out', out] + (['--det-reverse'] if tag == 'b' else [])
            cmd, env = cli.worker_cmd('batch', pid, cli.HASHSEEDS[slot], extra)
            env['TMPDIR'] = scratch
            procs.append((slot, sub, out, subprocess.Popen(cmd, env=env, cwd=cli.ROOT, stdout=subprocess.DEVNULL,
                                                            stderr=subprocess.DEVNULL)))
    res = {}
    ok = True
    for slot, sub, out, p in procs:
        rc = p.wait(timeout=1800)
        if rc != 0 or not os.path.exists(out):
            ok = False
            continue
        res[(slot, sub)] = json.load(open(out))['digest_by_index']
    return ok, res


def main(args):
    k = args.runs or 6
    seed = int(os.environ.get('VERIF_SEED', args.seed if args.seed is not None else 0))
    scratch = tempfile.mkdtemp(prefix='simverif-selftest-', dir='/dev/shm' if os.path.isdir('/dev/shm') else None)
    status = 0
    try:
        for pid in cli.CLAIMED:
            t0 = time.time()
            ok1, a = _digests(pid, k, 1, scratch, 'a', seed)
            ok2, b = _digests(pid, k, 5, scratch, 'b', seed)
            pairs = mism = 0
            first = None
            for (slot, sub), dmap in b.items():
                ref = a.get((slot, 0), {})
                for idx, dg in dmap.items():
                    pairs += 1
                    if ref.get(idx) != dg or dg == 'error':
                        mism += 1
                        first = first or (idx, ref.get(idx), dg)
            good = ok1 and ok2 and mism == 0 and pairs > 0
            print(f'selftest {pid}: digest pairs={pairs} mismatches={mism} workers_ok={ok1 and ok2} '
                  f'wall={time.time() - t0:.1f}s' + ('' if good else f'  FIRST-DIFF {first}'))
            if not good:
                status = 2
    finally:
        shutil.rmtree(scratch, ignore_errors=True)
    return status
